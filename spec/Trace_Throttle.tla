--------------------------- MODULE Trace_Throttle ---------------------------
(***************************************************************************)
(* MONITOR for C05 (redraw throttling), rate form with the literal refresh *)
(* rate R of the draw target and burst B (20 for draw targets; 10 and      *)
(* R = 1000 for the position gate of inc/dec/set_position):                *)
(*  WindowOK  in every window [t_i, t_j] between two painted ordinary      *)
(*            requests at most B + R*(t_j - t_i) + 1 are painted.  Linear  *)
(*            monitor: f' = max(f - R*dt, 0) + 1 at each painted request,  *)
(*            f <= B + 1, kept exactly in units of 10^-9 frames on limbs   *)
(*  FreshOK   a request at least 1/R after the last painted frame is       *)
(*            painted (the first request of a history too)                 *)
(*  LatestOK  a painted frame shows the latest position                    *)
(* Every record is one ordinary redraw request (tick / inc / ...) with the *)
(* virtual time in ns (tn, limbs) and the terminal calls it caused.        *)
(***************************************************************************)
EXTENDS U64, Json, IOUtils, TLC
Rec == ndJsonDeserialize(IOEnv.TRACE)
VARIABLES i, M, dead, bad, st
vars == <<i, M, dead, bad, st>>
St0 == [recs |-> 0, hists |-> 0, painted |-> 0, denied |-> 0, fresh |-> 0, full |-> 0]
E9 == Add(MulSmall(FromSmall(1000000), 1000), <<0>>)     \* 10^9 as limbs

Painted(r) == \E j \in 1..Len(r.calls) : r.calls[j].u = 0 /\ r.calls[j].k = "flush"

M0(x) == [R |-> x.R, B |-> x.B, f |-> <<0>>, tp |-> <<0>>, any |-> FALSE, pos |-> 0]

(* one request: new monitor state and verdict *)
Req(m, r) ==
    LET painted == Painted(r)
        dt == IF m.any THEN Sub(r.tn, m.tp) ELSE <<0>>
        decay == MulSmall(dt, m.R)                       \* R * dt in 10^-9 frames (R < 2^15)
        f1 == Add(IF Le(decay, m.f) THEN Sub(m.f, decay) ELSE <<0>>, E9)
        pos1 == IF r.op = "inc" THEN m.pos + 1 ELSE IF r.op = "set_position" THEN r.n ELSE m.pos
        due == ~m.any \/ Le(E9, decay)                   \* first request, or >= 1/R since the last painted frame
    IN [m |-> IF painted THEN [m EXCEPT !.f = f1, !.tp = r.tn, !.any = TRUE, !.pos = pos1] ELSE [m EXCEPT !.pos = pos1],
        painted |-> painted, due |-> due, full |-> painted /\ Le(MulSmall(E9, m.B), f1),
        rule |-> IF r.panic # "" THEN "NoPanic"
                 ELSE IF painted /\ Lt(MulSmall(E9, m.B + 1), f1) THEN "WindowOK"
                 ELSE IF ~painted /\ due THEN "FreshOK"
                 ELSE IF painted /\ r.shown # DecDigits(FromSmall(pos1)) THEN "LatestOK"
                 ELSE ""]

Init == /\ i = 1 /\ M = M0([R |-> 1, B |-> 1]) /\ dead = TRUE /\ bad = <<>> /\ st = St0
        /\ TLCSet(1, <<>>) /\ TLCSet(2, St0) /\ TLCSet(3, 1)
Next ==
    /\ i <= Len(Rec)
    /\ \E r \in {Rec[i]} :
       IF r.op = "init" THEN
            /\ M' = M0(r.cfg.x) /\ dead' = FALSE /\ bad' = bad /\ st' = [st EXCEPT !.recs = @ + 1, !.hists = @ + 1]
       ELSE IF dead \/ r.op \notin {"tick", "inc", "set_message", "set_position"} THEN UNCHANGED <<M, dead, bad>> /\ st' = [st EXCEPT !.recs = @ + 1]
       ELSE \E x \in {Req(M, r)} :
            /\ M' = x.m
            /\ dead' = (x.rule # "")
            /\ bad' = IF x.rule = "" THEN bad ELSE Append(bad, [h |-> r.h, i |-> r.i, rule |-> x.rule, op |-> r.op])
            /\ st' = [st EXCEPT !.recs = @ + 1, !.painted = @ + (IF x.painted THEN 1 ELSE 0), !.denied = @ + (IF x.painted THEN 0 ELSE 1),
                                !.fresh = @ + (IF x.due /\ M.any THEN 1 ELSE 0), !.full = @ + (IF x.full THEN 1 ELSE 0)]
    /\ i' = i + 1
    /\ TLCSet(1, bad') /\ TLCSet(2, st') /\ TLCSet(3, i')
Spec == Init /\ [][Next]_vars
Post == PrintT(<<"VERDICTS", ToJson([consumed |-> TLCGet(3) - 1, total |-> Len(Rec), bad |-> TLCGet(1), st |-> TLCGet(2)])>>)
=============================================================================
