-------------------------------- MODULE U64 --------------------------------
(***************************************************************************)
(* TLC integers are 32-bit; the library's counters are u64.  A natural     *)
(* number is a little-endian sequence of limbs in base 2^15 (so products   *)
(* of two limbs and a carry stay below 2^31).  A u64 travels in the JSON   *)
(* traces as five limbs.  All operators are exact.                         *)
(***************************************************************************)
EXTENDS Integers, Sequences

B == 32768
Zero == <<0, 0, 0, 0, 0>>
MaxU64 == <<32767, 32767, 32767, 32767, 15>>            \* 2^64 - 1
IsU64(a) == Len(a) = 5 /\ (\A j \in 1..4 : a[j] < B) /\ a[5] < 16

(* small natural (< 2^31) to five limbs *)
FromSmall(n) == <<n % B, (n \div B) % B, n \div (B * B), 0, 0>>

Limb(a, j) == IF j <= Len(a) THEN a[j] ELSE 0

(* arbitrary-length addition; result has max(len)+1 limbs *)
RECURSIVE AddFrom(_, _, _, _, _)
AddFrom(a, b, j, carry, n) ==
    IF j > n THEN <<carry>>
    ELSE LET s == Limb(a, j) + Limb(b, j) + carry IN <<s % B>> \o AddFrom(a, b, j + 1, s \div B, n)
Add(a, b) == AddFrom(a, b, 1, 0, IF Len(a) >= Len(b) THEN Len(a) ELSE Len(b))

(* comparison: -1, 0, 1 (lengths may differ) *)
RECURSIVE CmpFrom(_, _, _)
CmpFrom(a, b, j) ==
    IF j = 0 THEN 0
    ELSE IF Limb(a, j) > Limb(b, j) THEN 1
    ELSE IF Limb(a, j) < Limb(b, j) THEN -1
    ELSE CmpFrom(a, b, j - 1)
Cmp(a, b) == CmpFrom(a, b, IF Len(a) >= Len(b) THEN Len(a) ELSE Len(b))
Le(a, b) == Cmp(a, b) <= 0
Lt(a, b) == Cmp(a, b) < 0
Eq(a, b) == Cmp(a, b) = 0

(* a - b for a >= b *)
RECURSIVE SubFrom(_, _, _, _)
SubFrom(a, b, j, borrow) ==
    IF j > Len(a) THEN <<>>
    ELSE LET d == Limb(a, j) - Limb(b, j) - borrow IN
         IF d < 0 THEN <<d + B>> \o SubFrom(a, b, j + 1, 1) ELSE <<d>> \o SubFrom(a, b, j + 1, 0)
Sub(a, b) == SubFrom(a, b, 1, 0)
AbsDiff(a, b) == IF Le(b, a) THEN Sub(a, b) ELSE Sub(b, a)

(* multiplication by a small natural k < B *)
RECURSIVE MulSmallFrom(_, _, _, _)
MulSmallFrom(a, k, j, carry) ==
    IF j > Len(a) THEN (IF carry = 0 THEN <<>> ELSE <<carry % B>> \o (IF carry >= B THEN <<carry \div B>> ELSE <<>>))
    ELSE LET p == a[j] * k + carry IN <<p % B>> \o MulSmallFrom(a, k, j + 1, p \div B)
MulSmall(a, k) == MulSmallFrom(a, k, 1, 0)
ShiftLimbs(a, n) == [j \in 1..n |-> 0] \o a               \* a * B^n
(* general product *)
RECURSIVE MulFrom(_, _, _)
MulFrom(a, b, j) == IF j > Len(b) THEN <<0>> ELSE Add(ShiftLimbs(MulSmall(a, b[j]), j - 1), MulFrom(a, b, j + 1))
Mul(a, b) == MulFrom(a, b, 1)

(* u64 arithmetic of the library *)
Trunc64(a) == <<Limb(a, 1), Limb(a, 2), Limb(a, 3), Limb(a, 4), Limb(a, 5) % 16>>
WrapAdd(a, b) == Trunc64(Add(a, b))
Two64 == <<0, 0, 0, 0, 16>>
WrapSub(a, b) == IF Le(b, a) THEN Trunc64(Sub(a, b)) ELSE Trunc64(Sub(Add(a, Two64), b))
SatAdd(a, b) == LET s == Add(a, b) IN IF Lt(MaxU64, s) THEN MaxU64 ELSE Trunc64(s)
SatSub(a, b) == IF Le(b, a) THEN Trunc64(Sub(a, b)) ELSE Zero

(* decimal digits (as cells 48..57) by short division *)
RECURSIVE DivSmallFrom(_, _, _, _)
DivSmallFrom(a, k, j, rem) ==      \* from the most significant limb down; returns <<quotient limbs (big endian), remainder>>
    IF j = 0 THEN <<<<>>, rem>>
    ELSE LET cur == rem * B + a[j]
             rest == DivSmallFrom(a, k, j - 1, cur % k)
         IN <<<<cur \div k>> \o rest[1], rest[2]>>
Reverse(s) == [j \in 1..Len(s) |-> s[Len(s) + 1 - j]]
DivMod(a, k) == LET r == DivSmallFrom(a, k, Len(a), 0) IN [q |-> Reverse(r[1]), r |-> r[2]]
IsZero(a) == \A j \in 1..Len(a) : a[j] = 0
RECURSIVE DecDigits(_)
DecDigits(a) == LET dm == DivMod(a, 10) IN IF IsZero(dm.q) THEN <<48 + dm.r>> ELSE Append(DecDigits(dm.q), 48 + dm.r)
=============================================================================
