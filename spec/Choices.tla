------------------------------ MODULE Choices ------------------------------
(* Every sequence of L thread choices over N threads: the schedules for the  *)
(* atomic-granularity runs of C07 (which thread performs the next            *)
(* instrumented step).                                                       *)
EXTENDS Naturals, Sequences, TLC, Json
CONSTANTS N, L
VARIABLES hist, done
Init == hist = <<>> /\ done = FALSE
Step == Len(hist) < L /\ ~done /\ \E t \in 0..(N - 1) : hist' = Append(hist, t) /\ UNCHANGED done
Emit == Len(hist) = L /\ ~done /\ PrintT(<<"REPLAY", ToJson([schedule |-> hist])>>) /\ done' = TRUE /\ UNCHANGED hist
Next == Step \/ Emit
Spec == Init /\ [][Next]_<<hist, done>>
TypeOK == Len(hist) <= L
=============================================================================
