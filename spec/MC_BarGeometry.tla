--------------------------- MODULE MC_BarGeometry ---------------------------
(* Behaviour generator for C13.  One behaviour per configuration           *)
(*   (kind, N or terminal width, c, number of clusters, length)            *)
(* whose operations are all positions 0..len+1 in ascending order (for the *)
(* lengths 2^24-1 and 2^24: the positions around every multiple of         *)
(* len/cells, and the ends).  Design level: the exact-arithmetic reference *)
(* bar satisfies the contract at every generated position (RefOK).         *)
EXTENDS BarGeometry, Json
CONSTANTS Ns, Cs, Ks, Lens, BigLens, Unknown, Wide, TWs, WKs, WLens,
          Orders     \* builder orders: "tc" = with_template(..).progress_chars(..), "ct" = default_bar().progress_chars(..).template(..)
Unk == IF Unknown THEN {-1} ELSE {}        \* -1 = length unknown
VARIABLES cfg, done
vars == <<cfg, done>>

(* k distinct clusters of c columns: "#", "1".."8", "-"  /  ten CJK ideographs *)
Chars(c, k) == [j \in 1..k |-> IF c = 1 THEN (IF j = 1 THEN 35 ELSE IF j = k THEN 45 ELSE 47 + j)
                                        ELSE (IF j <= 5 THEN 999 + j ELSE 1000 + j)]
Frames == {<< <<>>, <<>> >>, << <<120>>, <<>> >>, << <<1001, 58>>, <<124, 121>> >>}      \* (pre, suf): "", "x"/"", "CJK :"/"|y"

BarCfgs == { [op |-> "new", kind |-> "bar", n |-> N, dflt |-> FALSE, c |-> c, chars |-> Chars(c, k), haslen |-> len >= 0, len |-> IF len >= 0 THEN len ELSE 0,
              pre |-> <<91>>, suf |-> <<93>>, tw |-> 200, order |-> o, tw0 |-> 0] : N \in Ns, c \in Cs, k \in Ks, len \in Lens \cup BigLens \cup Unk, o \in Orders }
            \cup { [op |-> "new", kind |-> "bar", n |-> 20, dflt |-> TRUE, c |-> c, chars |-> Chars(c, 3), haslen |-> TRUE, len |-> 7,
              pre |-> <<91>>, suf |-> <<93>>, tw |-> 200, order |-> o, tw0 |-> 0] : c \in Cs, o \in Orders }
WideCfgs == IF ~Wide THEN {} ELSE
            UNION { { [op |-> "new", kind |-> "wide", n |-> IF tw >= Cols(fr[1]) + Cols(fr[2]) THEN tw - Cols(fr[1]) - Cols(fr[2]) ELSE 0, dflt |-> FALSE, c |-> c, chars |-> Chars(c, k),
                       haslen |-> len >= 0, len |-> IF len >= 0 THEN len ELSE 0, pre |-> fr[1], suf |-> fr[2], tw |-> tw, order |-> o, tw0 |-> t0] :
                         (* tw0 > 0: the bar is a member of a MultiProgress that painted once on a terminal of tw0 columns before the terminal got its width tw *)
                         t0 \in {0} \cup (IF o = "tc" /\ fr[2] = <<>> THEN {tw + 7} ELSE {}) } :
                    tw \in TWs, c \in Cs, k \in WKs, len \in WLens \cup Unk, fr \in Frames, o \in Orders }

RECURSIVE SortedSeq(_)
SortedSeq(S) == IF S = {} THEN <<>> ELSE LET m == SetMin(S) IN <<m>> \o SortedSeq(S \ {m})
Positions(cf) ==
    IF ~cf.haslen THEN <<0, 1, 5>>
    ELSE IF cf.len <= 100 THEN [p \in 1..(cf.len + 2) |-> p - 1]
    ELSE LET cells == NCells(cf.n, cf.c)
             S == {0, 1, 2, cf.len - 1, cf.len, cf.len + 1} \cup
                  UNION { { (k * cf.len) \div cells + d : d \in {-1, 0, 1, 2} } : k \in 1..(IF cells > 0 THEN cells ELSE 0) }
         IN SortedSeq({p \in S : p >= 0 /\ p <= cf.len + 1})
OpsOf(cf) == LET ps == Positions(cf) IN <<cf>> \o [j \in 1..Len(ps) |-> [op |-> "pos", pos |-> ps[j]]]

Init == cfg \in BarCfgs \cup WideCfgs /\ done = FALSE
Emit == /\ ~done
        /\ PrintT(<<"REPLAY", ToJson([ops |-> OpsOf(cfg)])>>)
        /\ done' = TRUE /\ UNCHANGED cfg
Next == Emit
Spec == Init /\ [][Next]_vars

RefOK == LET cells == NCells(cfg.n, cfg.c)
             ps == Positions(cfg)
         IN \A j \in 1..Len(ps) :
              LET B == RefBar(cells, cfg.haslen, cfg.len, ps[j], cfg.chars)
                  f == RefFilled(cells, cfg.haslen, cfg.len, ps[j])
              IN /\ FilledOK(f, cells, cfg.haslen, cfg.len, ps[j])
                 /\ Layout(B, f, HeadOf(cells, cfg.haslen, cfg.len, ps[j]), cells, cfg.chars)
                 /\ (j > 1 => RefFilled(cells, cfg.haslen, cfg.len, ps[j - 1]) <= f)
TypeOK == done \in BOOLEAN /\ RefOK
=============================================================================
