---------------------------- MODULE Trace_Formats ----------------------------
(* MONITOR for C15: every (input, output, panic) record written by the       *)
(* harness `formats` driver from the real Display impls is judged against    *)
(* the contract of Formats.tla.  Record shapes (op):                         *)
(*   hc hb bb db   n (five limbs), out (cells)                               *)
(*   hf            std (cells: Rust's own {:.p} rendering), p, out           *)
(*   fd hd hda     secs (five limbs), nanos, out                             *)
EXTENDS Formats, Json, IOUtils
Rec == ndJsonDeserialize(IOEnv.TRACE)
VARIABLES i, prev, dead, bad, st
vars == <<i, prev, dead, bad, st>>
St0 == [recs |-> 0, hists |-> 0, counts |-> 0, floats |-> 0, negs |-> 0, nonfinite |-> 0, prec0 |-> 0, grouped |-> 0,
        bytes |-> 0, slack |-> 0, failed_writes |-> 0, fdur |-> 0, days |-> 0, hdur |-> 0, mono |-> 0, switches |-> 0, forced2 |-> 0]
NoPrev == [has |-> FALSE, alt |-> FALSE, D |-> <<0>>, j |-> 6, c |-> <<0>>]

DurOf(r) == DurNs(r.secs, r.nanos)
CurOf(r) == LET p == HDParse(r.out, r.op = "hda") IN [has |-> TRUE, alt |-> r.op = "hda", D |-> DurOf(r), j |-> p.j, c |-> p.c]

Rule(r, pv) ==
    IF r.panic # "" THEN "NoPanic"
    (* a writer that fails part-way makes the call return an error (no panic), and the value renders the same afterwards: the output is a function of the value *)
    ELSE IF r.partial \notin {"ok", "err"} THEN "NoPanic"
    ELSE IF r.again # r.out THEN "Repeatable"
    ELSE CASE r.op = "hc" -> IF r.out = HumanCount(r.n) THEN "" ELSE "HumanCountOK"
           [] r.op = "hf" -> IF ~StdShape(r.std) THEN "InputFact" ELSE IF r.out = HumanFloat(r.std) THEN "" ELSE "HumanFloatOK"
           [] r.op = "fd" -> IF r.out = FormattedDur(r.secs) THEN "" ELSE "FormattedDurationOK"
           [] r.op \in {"hb", "bb"} -> IF BytesOK(r.n, 1024, r.out) THEN "" ELSE "BytesOK"
           [] r.op = "db" -> IF BytesOK(r.n, 1000, r.out) THEN "" ELSE "BytesOK"
           [] r.op \in {"hd", "hda"} ->
                IF ~HumanDurOK(DurOf(r), r.out, r.op = "hda") THEN "HumanDurationOK"
                ELSE IF pv.has /\ pv.alt = (r.op = "hda") /\ ~Mono(pv, CurOf(r)) THEN "DurationMonotone"
                ELSE ""
           [] OTHER -> ""

Expected(r) == CASE r.op = "hc" -> HumanCount(r.n)
                 [] r.op = "hf" -> HumanFloat(r.std)
                 [] r.op = "fd" -> FormattedDur(r.secs)
                 [] OTHER -> <<>>

Count(r, pv) ==
    LET isB == r.op \in {"hb", "bb", "db"}
        isD == r.op \in {"hd", "hda"}
        cur == IF isD /\ r.panic = "" THEN CurOf(r) ELSE NoPrev
        cmp == isD /\ pv.has /\ cur.has /\ pv.alt = cur.alt /\ Le(pv.D, cur.D)
    IN [st EXCEPT !.recs = @ + 1,
                  !.counts = @ + (IF r.op = "hc" THEN 1 ELSE 0),
                  !.grouped = @ + (IF r.op \in {"hc", "hf"} /\ r.panic = "" /\ (\E j \in 1..Len(r.out) : r.out[j] = 44) THEN 1 ELSE 0),
                  !.floats = @ + (IF r.op = "hf" THEN 1 ELSE 0),
                  !.negs = @ + (IF r.op = "hf" /\ Neg(r.std) THEN 1 ELSE 0),
                  !.nonfinite = @ + (IF r.op = "hf" /\ ~HasDigit(r.std) THEN 1 ELSE 0),
                  !.prec0 = @ + (IF r.op = "hf" /\ r.p = 0 THEN 1 ELSE 0),
                  !.bytes = @ + (IF isB THEN 1 ELSE 0),
                  !.failed_writes = @ + (IF r.partial = "err" THEN 1 ELSE 0),
                  !.slack = @ + (IF isB /\ ~IsZero(Slack(r.n)) THEN 1 ELSE 0),
                  !.fdur = @ + (IF r.op = "fd" THEN 1 ELSE 0),
                  !.days = @ + (IF r.op = "fd" /\ r.panic = "" /\ (\E j \in 1..Len(r.out) : r.out[j] = 100) THEN 1 ELSE 0),
                  !.hdur = @ + (IF isD THEN 1 ELSE 0),
                  !.mono = @ + (IF cmp THEN 1 ELSE 0),
                  !.switches = @ + (IF cmp /\ cur.j # pv.j THEN 1 ELSE 0),
                  !.forced2 = @ + (IF isD /\ cur.has /\ cur.j \in 1..5 /\ Forced2(cur.D, cur.j, cur.c) THEN 1 ELSE 0)]

Init == /\ i = 1 /\ prev = NoPrev /\ dead = TRUE /\ bad = <<>> /\ st = St0
        /\ TLCSet(1, <<>>) /\ TLCSet(2, St0) /\ TLCSet(3, 1)
Next ==
    /\ i <= Len(Rec)
    /\ \E r \in {Rec[i]} :
       IF r.op = "init" THEN
            /\ prev' = NoPrev /\ dead' = FALSE /\ bad' = bad /\ st' = [st EXCEPT !.recs = @ + 1, !.hists = @ + 1]
       ELSE IF dead THEN UNCHANGED <<prev, dead, bad>> /\ st' = [st EXCEPT !.recs = @ + 1]
       ELSE \E rule \in {Rule(r, prev)} :
            /\ prev' = IF rule = "" /\ r.op \in {"hd", "hda"} THEN CurOf(r) ELSE IF r.op \in {"hd", "hda"} THEN NoPrev ELSE prev
            /\ dead' = (rule # "")
            /\ bad' = IF rule = "" THEN bad ELSE Append(bad, [h |-> r.h, i |-> r.i, rule |-> rule, op |-> r.op, rec |-> r, expected |-> Expected(r)])
            /\ st' = Count(r, prev)
    /\ i' = i + 1
    /\ TLCSet(1, bad') /\ TLCSet(2, st') /\ TLCSet(3, i')
Spec == Init /\ [][Next]_vars
Post == PrintT(<<"VERDICTS", ToJson([consumed |-> TLCGet(3) - 1, total |-> Len(Rec), bad |-> TLCGet(1), st |-> TLCGet(2)])>>)
=============================================================================
