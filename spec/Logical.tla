------------------------------ MODULE Logical ------------------------------
(***************************************************************************)
(* CONTRACT for the logical state of a progress bar over the whole u64     *)
(* range (property C07): position() follows inc/dec/set_position/reset/    *)
(* finish with wrapping arithmetic, length() follows                       *)
(* set_length/inc_length/dec_length/unset_length with saturation, the      *)
(* completed fraction is within [0,1], and nothing panics.                 *)
(***************************************************************************)
EXTENDS U64, TLC

LInit(haslen, len) == [pos |-> Zero, has |-> haslen, len |-> len, fin |-> FALSE, onfin |-> "AndLeave"]
LInitF(haslen, len, onfin) == [LInit(haslen, len) EXCEPT !.onfin = onfin]       \* with_finish(onfin)

Finish(L) == [L EXCEPT !.fin = TRUE, !.pos = IF L.has THEN L.len ELSE L.pos]

LApply(L, r) ==
    CASE r.op = "inc"          -> [L EXCEPT !.pos = WrapAdd(L.pos, r.n)]
      [] r.op = "dec"          -> [L EXCEPT !.pos = WrapSub(L.pos, r.n)]
      [] r.op \in {"set_position", "update_pos"} -> [L EXCEPT !.pos = r.n]
      [] r.op = "reset"        -> [L EXCEPT !.pos = Zero, !.fin = FALSE]
      [] r.op \in {"finish", "finish_with_message", "finish_and_clear"} -> Finish(L)
      [] r.op \in {"abandon", "abandon_with_message"} -> [L EXCEPT !.fin = TRUE]
      (* the configured finish behaviour, every time it is asked for (it is not used up by the first finish) *)
      [] r.op = "finish_using_style" -> IF L.onfin \in {"Abandon", "AbandonWithMessage"} THEN [L EXCEPT !.fin = TRUE] ELSE Finish(L)
      [] r.op \in {"set_length", "update_len"} -> [L EXCEPT !.has = TRUE, !.len = r.n]
      [] r.op = "unset_length" -> [L EXCEPT !.has = FALSE]
      [] r.op = "inc_length"   -> IF L.has THEN [L EXCEPT !.len = SatAdd(L.len, r.n)] ELSE L
      [] r.op = "dec_length"   -> IF L.has THEN [L EXCEPT !.len = SatSub(L.len, r.n)] ELSE L
      [] OTHER -> L               \* tick, set_message, ... do not touch position or length

(* fraction() scaled by 2^30 (floor), as logged by the probe *)
One30 == 1073741824
FracOK(L, f30) ==
    /\ f30 >= 0 /\ f30 <= One30
    /\ (~L.has => f30 = 0)
    /\ (L.has /\ IsZero(L.len) => f30 = One30)
    /\ (L.has /\ ~IsZero(L.len) /\ IsZero(L.pos) => f30 = 0)
    /\ (L.has /\ ~IsZero(L.len) /\ Le(L.len, L.pos) => f30 = One30)

(* exact form of the accuracy clause, written with shifts: pos * 2^30 = ShiftLimbs(pos, 2) *)
FracNear(L, f30) ==
    (L.has /\ ~IsZero(L.len) /\ Lt(L.pos, L.len)) =>
        Le(AbsDiff(Mul(FromSmall(f30), L.len), ShiftLimbs(L.pos, 2)), MulSmall(L.len, 1024))

(* the rendered "{pos} {len} {percent}" line *)
RECURSIVE SplitSp(_, _, _)
SplitSp(s, i, cur) == IF i > Len(s) THEN <<cur>>
                      ELSE IF s[i] = 32 THEN <<cur>> \o SplitSp(s, i + 1, <<>>)
                      ELSE SplitSp(s, i + 1, Append(cur, s[i]))
RECURSIVE ToNat(_, _)
ToNat(d, i) == IF i = 0 THEN 0 ELSE ToNat(d, i - 1) * 10 + (d[i] - 48)
ShownOK(L, shown, f30) ==
    shown = <<>> \/
    LET f == SplitSp(shown, 1, <<>>) IN
    /\ Len(f) = 3
    /\ f[1] = DecDigits(L.pos)
    /\ f[2] = DecDigits(IF L.has THEN L.len ELSE L.pos)        \* a missing length renders as the position
    /\ Len(f[3]) \in 1..3 /\ (\A j \in 1..Len(f[3]) : f[3][j] \in 48..57)
    /\ LET p == ToNat(f[3], Len(f[3]))
           f20 == f30 \div 1024
       IN p <= 100 /\ (f30 >= 0 => (p * 1048576 - 100 * f20 <= 524288 + 200 /\ 100 * f20 - p * 1048576 <= 524288 + 200))
=============================================================================
