----------------------------- MODULE DrawTarget -----------------------------
(***************************************************************************)
(* IMPLEMENTATION-SHAPED model of DrawState::draw_to_term (draw_target.rs) *)
(* and of the single-bar paths of BarState (state.rs) that call it, as the *)
(* code stands after the repairs D1, D1b/c, D19 (see DESIGN.md section 5): *)
(*    llc    last_line_count: rows of the previous frame the next draw     *)
(*           clears                                                        *)
(*    atEnd  cursor_at_line_end: the previous draw left the cursor on the  *)
(*           last line it wrote (not on a fresh line below it)             *)
(* One operator per critical section; every terminal call goes through     *)
(* Term.tla.  MC_Single checks this model against the Screen contract for  *)
(* every history up to a bound (design level) and prints a transition      *)
(* cover for replay on the real code.                                      *)
(*                                                                         *)
(* Named deviation: the row count of a line is CodeRows = max(1, ceil(cols *)
(* / width)) as in LineType::wrapped_height, which differs from the rows   *)
(* the terminal really uses when a 2-column glyph wraps early (KF-D14);    *)
(* MC_Single therefore keeps 2-column glyphs away from row ends.           *)
(***************************************************************************)
EXTENDS Term, TLC

CONSTANT TextOnlyNewline   \* TRUE: the code after repair D1 (a draw that ends with a text line ends with a newline);
                           \* FALSE: the pinned behaviour (pad to the right edge like a bar line): TLC then finds D1

TextLine(c) == [bar |-> FALSE, c |-> c]
BarLine(c) == [bar |-> TRUE, c |-> c]

CeilDiv(a, b) == (a + b - 1) \div b
CodeRows(l, w) == Max(1, CeilDiv(Cols(l.c), w))

RECURSIVE ClearRows(_, _, _)
ClearRows(t, i, n) == IF i > n THEN t ELSE ClearRows(IF i < n THEN Down(Clear(t), 1) ELSE Clear(t), i + 1, n)

RECURSIVE Newlines(_, _)
Newlines(t, k) == IF k = 0 THEN t ELSE Newlines(Line(t, <<>>), k - 1)

RECURSIVE SumCodeRows(_, _, _)
SumCodeRows(ls, j, w) == IF j > Len(ls) THEN 0 ELSE CodeRows(ls[j], w) + SumCodeRows(ls, j + 1, w)

(* the loop over the lines: state [t, real, atEnd, blank, stop] *)
RECURSIVE PaintFrom(_, _, _, _, _)
PaintFrom(st, ls, j, w, h) ==
    IF j > Len(ls) \/ st.stop THEN st
    ELSE LET l == ls[j]
             lh == CodeRows(l, w)
         IN IF l.bar /\ st.real + lh > h THEN [st EXCEPT !.stop = TRUE]
            ELSE LET t1 == IF j # 1 THEN Line(st.t, <<>>) ELSE st.t
                     t2 == IF l.bar THEN Newlines(t1, st.blank) ELSE t1
                     t3 == Str(t2, l.c)
                     last == j = Len(ls)
                     t4 == IF ~last THEN t3
                           ELSE IF l.bar \/ ~TextOnlyNewline THEN Str(t3, Rep(SP, lh * w - Cols(l.c)))
                           ELSE Line(t3, <<>>)
                 IN PaintFrom([t |-> t4, real |-> IF l.bar THEN st.real + lh ELSE st.real,
                               atEnd |-> ~(last /\ ~l.bar /\ TextOnlyNewline), blank |-> IF l.bar THEN 0 ELSE st.blank, stop |-> FALSE],
                              ls, j + 1, w, h)

(* draw_to_term: d = [t, llc, atEnd]; lines = text lines then bar lines; bottom = bottom alignment *)
DrawToTerm(d, lines, bottom) ==
    LET w == d.t.w
        h == d.t.h
        n == d.llc
        t0 == IF n = 0 /\ d.atEnd /\ lines # <<>> THEN Line(d.t, <<>>) ELSE d.t
        e0 == IF n = 0 /\ d.atEnd /\ lines # <<>> THEN FALSE ELSE d.atEnd
        t1 == IF n > 0 /\ ~e0 THEN Up(t0, 1) ELSE t0
        t2 == Up(ClearRows(Up(t1, IF n > 0 THEN n - 1 ELSE 0), 1, n), IF n > 0 THEN n - 1 ELSE 0)
        e2 == IF n > 0 THEN FALSE ELSE e0
        full == SumCodeRows(lines, 1, w)
        shift == IF bottom /\ full < n THEN n - full ELSE 0
        p == PaintFrom([t |-> t2, real |-> 0, atEnd |-> e2, blank |-> shift, stop |-> FALSE], lines, 1, w, h)
        t9 == Newlines(p.t, p.blank)
    IN [t |-> t9, llc |-> p.real + shift, atEnd |-> IF p.blank > 0 THEN FALSE ELSE p.atEnd]

(* ----------------------------------------------------------------------- *)
(* The rate limiter of a draw target (RateLimiter in draw_target.rs), in     *)
(* microseconds: exact for the refresh rates whose interval ceil(10^9 / hz)  *)
(* ns is a whole number of microseconds (LimExact).  Same algorithm as       *)
(* Limiter.tla (which is checked against the throttling laws); here it is    *)
(* composed with the draw path: an ordinary draw request is performed only   *)
(* if the bucket allows it, a forced one always and without touching the     *)
(* bucket.                                                                   *)
NoLim == [on |-> FALSE, ivl |-> 1, cap |-> 20, prev |-> 0]
IvlNs(hz) == (1000000000 + hz - 1) \div hz
LimExact(hz) == hz > 0 /\ IvlNs(hz) % 1000 = 0
LimNew(hz, now) == [on |-> TRUE, ivl |-> IvlNs(hz) \div 1000, cap |-> 20, prev |-> now]
Allow(l, now) ==
    LET elapsed == now - l.prev
        c == l.cap + (elapsed \div l.ivl) - 1
    IN IF l.cap = 0 /\ elapsed < l.ivl THEN [ok |-> FALSE, l |-> l]
       ELSE [ok |-> TRUE, l |-> [l EXCEPT !.cap = Min(20, c), !.prev = now - (IF c >= 20 THEN 0 ELSE elapsed % l.ivl)]]   \* a full bucket banks no time

ToBar(ls) == [j \in 1..Len(ls) |-> BarLine(ls[j])]
ToText(ls) == [j \in 1..Len(ls) |-> TextLine(ls[j])]
=============================================================================
