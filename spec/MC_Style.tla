------------------------------ MODULE MC_Style ------------------------------
(***************************************************************************)
(* Behaviour generator for C14: every sequence of up to D builder calls    *)
(* (the first one is with_template) over argument classes, cut where the   *)
(* CONTRACT (StyleBuilder!Expect) says the style is rejected, followed by  *)
(* a fixed script of draws on fresh bars (terminal widths 1 and 10, with   *)
(* and without a length): tick values 0, 1, n-2, n-1, n, n+1 (n = number   *)
(* of tick strings), positions 0 / middle / end, finished and not, a draw  *)
(* on the steady-tick thread, a later call on the same bar, and            *)
(* get_tick_str at 0, 1, n-2, n-1, n, 2^32, u64::MAX.                      *)
(***************************************************************************)
EXTENDS StyleBuilder, Integers, Json, TLC
CONSTANTS D,            \* maximal number of builder calls
          FirstTpls,    \* template names for with_template
          Tpls,         \* template names for a later template()
          Level         \* 1: core argument classes, 2: all argument classes
VARIABLES hist, nt, open, done
vars == <<hist, nt, open, done>>

TickCharArgs == {<<>>, <<1>>, <<1, 2>>, <<1, 2, 3>>} \cup (IF Level >= 2 THEN {<<6>>, <<4>>, <<5, 5>>} ELSE {})
TickStringArgs == {<<>>, << <<1>> >>, << <<1>>, <<2>> >>, << <<1>>, <<2>>, <<3>> >>}
                  \cup (IF Level >= 2 THEN {<< <<>>, <<>> >>, << <<1, 2>> >>, << <<4>>, <<1>> >>,
                                             << <<1>>, <<2>>, <<4>> >>, << <<1>>, <<2>>, <<1, 2, 3>> >>}      \* the final tick string is wider than every animation frame
                        ELSE {})
ProgressArgs == {<<>>, <<1>>, <<1, 3>>, <<1, 2, 3>>, <<1, 4>>, <<5, 5>>,
                 <<1, 2, 4>>, <<1, 2, 4, 7>>, <<4, 7, 1>>}        \* unequal widths that fall between pairs / in an odd remainder
                \cup (IF Level >= 2 THEN {<<1, 2, 2, 3>>, <<4, 7>>, <<4, 7, 4>>, <<4, 1, 1>>, <<5, 5, 5>>, <<5, 1>>, <<6, 1>>, <<6>>, <<1, 2, 3, 4>>} ELSE {})

Calls == {[op |-> "template", tpl |-> t] : t \in Tpls}
         \cup {[op |-> "tick_chars", arg |-> a] : a \in TickCharArgs}
         \cup {[op |-> "tick_strings", args |-> a] : a \in TickStringArgs}
         \cup {[op |-> "progress_chars", arg |-> a] : a \in ProgressArgs}
         \cup {[op |-> "with_key"]}

P32 == <<0, 0, 4, 0, 0>>                                \* 2^32 as base-2^15 limbs (U64.tla)
MaxU64 == <<32767, 32767, 32767, 32767, 15>>
Small(n) == <<n % 32768, n \div 32768, 0, 0, 0>>

Ticks(k) == IF k > 0 THEN <<[op |-> "ticks", k |-> k]>> ELSE <<>>
(* one bar of terminal width w and length len (-1: none); n tick strings *)
BarScript(w, len, n, steady) ==
    <<[op |-> "bar", w |-> w, len |-> len], [op |-> "force_draw"]>>
    \o Ticks(1) \o Ticks(n - 3) \o Ticks(1) \o Ticks(1) \o Ticks(1)
    \o <<[op |-> "set_position", n |-> 1], [op |-> "set_position", n |-> 2]>>
    \o (IF steady THEN <<[op |-> "steady"]>> ELSE <<>>)
    \o <<[op |-> "finish"]>> \o Ticks(1) \o <<[op |-> "later"]>>
TickStrScript(n) ==
    [j \in 1..7 |-> [op |-> "tickstr", idx |-> <<Small(0), Small(1), Small(IF n >= 2 THEN n - 2 ELSE 0), Small(IF n >= 1 THEN n - 1 ELSE 0), Small(n), P32, MaxU64>>[j]]]
    \o <<[op |-> "finalstr"]>>
(* a terminal far wider than any buffer of blanks: one draw, one tick, the finish *)
WideScript == <<[op |-> "bar", w |-> 1000, len |-> 2], [op |-> "force_draw"]>> \o Ticks(1) \o <<[op |-> "finish"]>>
Script(n) == BarScript(1, -1, n, FALSE) \o BarScript(10, 2, n, TRUE) \o BarScript(1, 2, n, FALSE) \o BarScript(10, -1, n, FALSE) \o WideScript \o <<[op |-> "slow"]>> \o TickStrScript(n)

Init == hist = <<>> /\ nt = DefaultTicks /\ open = TRUE /\ done = FALSE
Step == /\ open /\ Len(hist) < D
        /\ \E c \in (IF hist = <<>> THEN {[op |-> "with_template", tpl |-> t] : t \in FirstTpls} ELSE Calls) :
             /\ hist' = Append(hist, c)
             /\ open' = (Expect(c) = "Built")          \* a rejected / failed / free call ends the building
             /\ nt' = TicksAfter(nt, c)
        /\ UNCHANGED done
Emit == /\ hist # <<>> /\ ~done
        /\ PrintT(<<"REPLAY", ToJson([ops |-> hist \o (IF Expect(hist[Len(hist)]) \in {"Built", "Either"} THEN Script(nt)
                                                       ELSE <<[op |-> "bar", w |-> 10, len |-> 2], [op |-> "force_draw"]>>)])>>)     \* nothing to draw with: both are skipped
        /\ done' = TRUE /\ UNCHANGED <<hist, nt, open>>
Next == Step \/ Emit
Spec == Init /\ [][Next]_vars
TypeOK == nt \in 0..DefaultTicks /\ Len(hist) <= D
=============================================================================
