-------------------------- MODULE TemplateGrammar --------------------------
(***************************************************************************)
(* CONTRACT for property C10 (fidelity part): the documented template      *)
(* grammar as a GENERATOR of well-formed templates together with what each *)
(* of them denotes.                                                        *)
(*                                                                         *)
(*   template   ::= piece*                                                 *)
(*   piece      ::= literal character (anything but '{', '}', newline)     *)
(*                | "{{"            stands for '{'                         *)
(*                | "}}"            stands for '}'                         *)
(*                | newline         ends an output line                    *)
(*                | '{' whitespace  stands for itself                      *)
(*                | '{' key [ ':' [<^>] [width] ['!'] ['.' style ['/' style]] ] '}' *)
(*                                                                         *)
(* A template is a sequence of cells (Cells.tla); what it means is a       *)
(* sequence of ITEMS: [k |-> "lit", text] (text may contain NL = 10) and   *)
(* [k |-> "ph", text |-> key, al, hasw, w |-> width digits, tr, sty, alt]. *)
(* Piece(..) operators below build both at once; MC_TemplateGrammar.tla    *)
(* enumerates them.                                                        *)
(*                                                                         *)
(* Denotation: the in-order concatenation of the literal text and the      *)
(* placeholder expansions, one output line per template line, unknown keys *)
(* expanding to nothing.  What the property does NOT fix is left open:     *)
(*   - the amount and side of padding of a placeholder with a width (C12): *)
(*     an expansion with a width is the value with any number of spaces    *)
(*     on either side ("flex", atom 0); with '!' and a width below the     *)
(*     value's columns it is any contiguous piece of the value that fits;  *)
(*   - colours (zero-width cells are dropped before comparing);            *)
(*   - trailing spaces of a line (the library pads the last line to the    *)
(*     terminal width) and trailing empty lines (a template that ends in   *)
(*     a newline).                                                         *)
(* A width beyond u16::MAX may be refused (Err) or accepted; when accepted *)
(* the rendering must still have literals and expansions in order.         *)
(***************************************************************************)
EXTENDS Cells, Naturals, Sequences, FiniteSets

FLEX == 0                    \* atom: any number of spaces

LitItem(text) == [k |-> "lit", text |-> text, al |-> 0, hasw |-> FALSE, w |-> <<>>, tr |-> FALSE, sty |-> <<>>, alt |-> <<>>]
PhItem(key, al, w, tr, sty, alt) == [k |-> "ph", text |-> key, al |-> al, hasw |-> w # <<>>, w |-> w, tr |-> tr, sty |-> sty, alt |-> alt]

(* ---- pieces: <<cells, items>> ---- *)
PcLit(c) == <<<<c>>, <<LitItem(<<c>>)>>>>
PcOpenEsc == <<<<123, 123>>, <<LitItem(<<123>>)>>>>            \* {{
PcCloseEsc == <<<<125, 125>>, <<LitItem(<<125>>)>>>>           \* }}
PcNewLine == <<<<10>>, <<LitItem(<<10>>)>>>>
PcOpenWs(ws) == <<<<123, ws>>, <<LitItem(<<123, ws>>)>>>>      \* '{' followed by whitespace stands for itself
PcPlaceholder(key, colon, al, w, tr, sty, alt) ==
    LET spec == (IF al = 0 THEN <<>> ELSE <<al>>) \o w \o (IF tr THEN <<33>> ELSE <<>>)
                \o (IF sty = <<>> THEN <<>> ELSE <<46>> \o sty \o (IF alt = <<>> THEN <<>> ELSE <<47>> \o alt))
    IN <<<<123>> \o key \o (IF colon \/ spec # <<>> THEN <<58>> \o spec ELSE <<>>) \o <<125>>,
         <<PhItem(key, al, w, tr, sty, alt)>>>>

(* ---- widths ---- *)
RECURSIVE GStripZeros(_)
GStripZeros(d) == IF d # <<>> /\ Head(d) = 48 THEN GStripZeros(Tail(d)) ELSE d
RECURSIVE GDigitsVal(_, _)
GDigitsVal(d, i) == IF i = 0 THEN 0 ELSE GDigitsVal(d, i - 1) * 10 + (d[i] - 48)
Beyond16(d) == LET s == GStripZeros(d) IN Len(s) > 5 \/ (Len(s) = 5 /\ GDigitsVal(s, 5) > 65535)
WNat(d) == LET s == GStripZeros(d) IN GDigitsVal(s, Len(s))       \* only for ~Beyond16(d)
HasBigWidth(items) == \E j \in 1..Len(items) : items[j].k = "ph" /\ items[j].hasw /\ Beyond16(items[j].w)

(* ---- environment: the state of the bar the template is rendered on ---- *)
K_k == <<107>>
K_pos == <<112, 111, 115>>
K_len == <<108, 101, 110>>
K_msg == <<109, 115, 103>>
K_prefix == <<112, 114, 101, 102, 105, 120>>
K_wide_msg == <<119, 105, 100, 101, 95, 109, 115, 103>>      \* wide_msg: the message, padded / truncated to the rest of the line
K_wide_bar == <<119, 105, 100, 101, 95, 98, 97, 114>>         \* wide_bar: the bar, filling the rest of the line
BARG == 900                  \* cell of a bar glyph (the tokeniser gives 900 / 901 to the default progress characters)
BARA == 3900                 \* atom: one or more bar glyphs
Val(env, key) ==
    CASE key = K_k -> env.k
      [] key = K_pos -> Dec(env.pos)
      [] key = K_len -> Dec(env.len)
      [] key = K_msg -> env.msg
      [] key = K_wide_msg -> env.msg
      [] key = K_prefix -> env.prefix
      [] OTHER -> <<>>                          \* unknown keys expand to nothing

(* ---- denotation as atom sequences (cells and FLEX) ---- *)
Pieces(v, w) == {SubSeq(v, a, b) : a \in 1..(Len(v) + 1), b \in 0..Len(v)}      \* contiguous pieces (SubSeq with b < a is empty)
ItemAlts(env, it) ==
    IF it.k = "lit" THEN {TabX(it.text, 8)}           \* a tab in a literal is painted as tab-width blanks (the default width; C16 has the other widths)
    ELSE LET v == Val(env, it.text) IN
         IF it.text = K_wide_msg THEN {<<FLEX>> \o v \o <<FLEX>>}          \* fills the line: padding is free (the terminal is wider than the line)
         ELSE IF it.text = K_wide_bar THEN {<<BARA>>}                      \* a bar of whatever width is left, nothing else
         ELSE IF ~it.hasw THEN {v}
         ELSE IF it.tr /\ ~Beyond16(it.w) /\ WNat(it.w) < Cols(v)
              THEN {<<FLEX>> \o p \o <<FLEX>> : p \in {q \in Pieces(v, 0) : Cols(q) <= WNat(it.w)}}
              ELSE {<<FLEX>> \o v \o <<FLEX>>}
RECURSIVE Alts(_, _, _)
Alts(env, items, j) == IF j > Len(items) THEN {<<>>}
                       ELSE {a \o rest : a \in ItemAlts(env, items[j]), rest \in Alts(env, items, j + 1)}
Denote(env, items) == Alts(env, items, 1)

(* ---- comparison with what was painted ---- *)
(* expected atoms -> runs [g, n, flex]; every line end is flexible in trailing spaces *)
RECURSIVE NormE(_, _, _)
NormE(e, i, acc) ==
    IF i > Len(e) THEN acc
    ELSE LET x == e[i]
             sp == x = FLEX \/ x = SP
             la == Len(acc)
         IN IF sp /\ la > 0 /\ acc[la].g = SP
            THEN NormE(e, i + 1, [acc EXCEPT ![la] = [g |-> SP, n |-> @.n + (IF x = SP THEN 1 ELSE 0), flex |-> @.flex \/ x = FLEX]])
            ELSE IF sp THEN NormE(e, i + 1, Append(acc, [g |-> SP, n |-> IF x = SP THEN 1 ELSE 0, flex |-> x = FLEX]))
            ELSE IF x = BARA THEN NormE(e, i + 1, Append(acc, [g |-> BARG, n |-> 1, flex |-> TRUE]))
            ELSE IF x = NL THEN NormE(e, i + 1, (IF la > 0 /\ acc[la].g = SP THEN [acc EXCEPT ![la].flex = TRUE] ELSE Append(acc, [g |-> SP, n |-> 0, flex |-> TRUE]))
                                                \o <<[g |-> NL, n |-> 1, flex |-> FALSE]>>)
            ELSE NormE(e, i + 1, Append(acc, [g |-> x, n |-> 1, flex |-> FALSE]))
RECURSIVE StripE(_)
StripE(r) == IF r # <<>> /\ r[Len(r)].g \in {SP, NL} THEN StripE(SubSeq(r, 1, Len(r) - 1)) ELSE r
Expected(atoms) == StripE(NormE(atoms, 1, <<>>))

(* painted rows (each a sequence of <<g, n>>, n > 1 only for spaces) -> one run sequence; *)
(* zero-width cells (colours) dropped, rows joined by NL, adjacent space runs merged      *)
RECURSIVE Flat(_, _)
Flat(rows, j) == IF j > Len(rows) THEN <<>> ELSE rows[j] \o (IF j < Len(rows) THEN << <<NL, 1>> >> ELSE <<>>) \o Flat(rows, j + 1)
RECURSIVE NormP(_, _, _)
NormP(p, i, acc) ==
    IF i > Len(p) THEN acc
    ELSE LET x == p[i] la == Len(acc) IN
         IF x[1] \in {900, 901} THEN (IF la > 0 /\ acc[la][1] = BARG THEN NormP(p, i + 1, [acc EXCEPT ![la] = <<BARG, @[2] + x[2]>>])
                                       ELSE NormP(p, i + 1, Append(acc, <<BARG, x[2]>>)))
         ELSE IF x[1] >= 2000 \/ x[2] = 0 THEN NormP(p, i + 1, acc)
         ELSE IF x[1] = SP /\ la > 0 /\ acc[la][1] = SP THEN NormP(p, i + 1, [acc EXCEPT ![la] = <<SP, @[2] + x[2]>>])
         ELSE NormP(p, i + 1, Append(acc, x))
RECURSIVE StripP(_)
StripP(r) == IF r # <<>> /\ r[Len(r)][1] \in {SP, NL} THEN StripP(SubSeq(r, 1, Len(r) - 1)) ELSE r
Painted(rows) == StripP(NormP(Flat(rows, 1), 1, <<>>))

RECURSIVE Match(_, _, _, _)
Match(E, i, P, j) ==
    IF i > Len(E) THEN j > Len(P)
    ELSE LET e == E[i] IN
         IF e.g = BARG THEN j <= Len(P) /\ P[j][1] = BARG /\ P[j][2] >= 1 /\ Match(E, i + 1, P, j + 1)
         ELSE IF e.g # SP THEN j <= Len(P) /\ P[j] = <<e.g, 1>> /\ Match(E, i + 1, P, j + 1)
         ELSE IF j <= Len(P) /\ P[j][1] = SP
              THEN (IF e.flex THEN P[j][2] >= e.n ELSE P[j][2] = e.n) /\ Match(E, i + 1, P, j + 1)
              ELSE e.flex /\ e.n = 0 /\ Match(E, i + 1, P, j)

(* the rendering `rows` is one of the denotations of `items` in environment env *)
Renders(env, items, rows) ==
    LET P == Painted(rows) IN \E a \in Denote(env, items) : Match(Expected(a), 1, P, 1)

(* ---- canonical form of an item / part list (adjacent literals merged, "nl" parts as NL cells); *)
(* used for the design-level comparison with TemplateParser.tla                                *)
RECURSIVE Canon(_, _, _)
Canon(parts, j, acc) ==
    IF j > Len(parts) THEN acc
    ELSE LET p == parts[j]
             t == IF p.k = "nl" THEN <<NL>> ELSE p.text
             la == Len(acc)
         IN IF p.k = "ph" THEN Canon(parts, j + 1, Append(acc, p))
            ELSE IF t = <<>> THEN Canon(parts, j + 1, acc)
            ELSE IF la > 0 /\ acc[la].k = "lit" THEN Canon(parts, j + 1, [acc EXCEPT ![la].text = @ \o t])
            ELSE Canon(parts, j + 1, Append(acc, LitItem(t)))
=============================================================================
