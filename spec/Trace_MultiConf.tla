--------------------------- MODULE Trace_MultiConf ---------------------------
(***************************************************************************)
(* TRACE VALIDATION for the implementation-shaped model of MultiProgress   *)
(* (MC_Multi: ordering with zombie flags, orphan lines, zombie_lines_count, *)
(* draw with head-zombie reaping, mark_zombie, clear, remove, relinking, on *)
(* top of DrawTarget!DrawToTerm).  Every record of a history replayed on    *)
(* the real library carries the terminal calls the operation caused; the    *)
(* model performs the same operation (MStep) and must end with the same     *)
(* terminal: the same rows, viewport and cursor.  A history conforms when   *)
(* all its records do.  Conformance carries TLC's design-level result for   *)
(* MC_Multi (the model satisfies the Screen contract for every history of   *)
(* its alphabet) over to the code; it is evidence, not a verdict.           *)
(***************************************************************************)
EXTENDS MC_Multi, IOUtils
Rec == ndJsonDeserialize(IOEnv.TRACE)
VARIABLES i, T, dead, res
cvars == <<S, hist, nlog, done, I, m, ok, i, T, dead, res>>

Canon(t) == <<AllRows(t), t.top, t.r, t.c>>

(* the logical part of the contract state is all MStep reads (finished?, rendering, alignment): advance it like the generator does *)
AdvanceS(S0, r) ==
    LET a == Apply(S0, r)
        hm == HeadMove(a.S, a.S.above, a.S.order)
    IN [a.S EXCEPT !.above = hm.above \o [j \in 1..Len(a.log) |-> LogItem(a.log[j])], !.order = hm.order]

(* a spy terminal, with or without a refresh rate whose interval is a whole number of microseconds *)
Supported(r) == r.cfg.w = W /\ r.cfg.h = H /\ r.cfg.multi /\ ~r.cfg.mphid /\ ~r.cfg.pty /\ (r.cfg.hz = 0 \/ LimExact(r.cfg.hz))

R0 == [recs |-> 0, hists |-> 0, conform |-> 0, skipped |-> 0, first |-> <<>>]
ConfInit == /\ S = <<>> /\ hist = <<>> /\ nlog = 0 /\ done = FALSE /\ I = I0 /\ m = MM0 /\ ok = TRUE
            /\ i = 1 /\ T = <<>> /\ dead = TRUE /\ res = R0 /\ TLCSet(1, R0)
ConfNext ==
    /\ i <= Len(Rec)
    /\ \E r \in {Rec[i]} :
        IF r.op = "init" THEN
            \E t0 \in {Calls(TInit(r.cfg.w, r.cfg.h), r.calls)} :
            /\ S' = SInit(r.cfg.w, r.cfg.h, r.cfg.multi, r.cfg.mphid, r.cfg.align)
            /\ T' = t0
            /\ m' = [MM0 EXCEPT !.d.t = t0, !.lim = IF r.cfg.hz > 0 THEN LimNew(r.cfg.hz, 0) ELSE NoLim]
            /\ dead' = ~Supported(r)
            (* the previous history conformed if it was still alive at its end *)
            /\ res' = [res EXCEPT !.hists = @ + 1, !.conform = @ + (IF ~dead THEN 1 ELSE 0), !.skipped = @ + (IF Supported(r) THEN 0 ELSE 1)]
        ELSE IF dead THEN UNCHANGED <<S, T, m, dead, res>>
        ELSE \E S1 \in {AdvanceS(S, r)} : \E t1 \in {Calls(T, r.calls)} : \E m1 \in {MStep(m, r, S, S1)} :
            /\ S' = S1 /\ T' = t1 /\ m' = m1
            /\ dead' = (r.panic # "" \/ Canon(m1.d.t) # Canon(t1))
            /\ res' = [res EXCEPT !.recs = @ + 1,
                                  !.first = IF ~dead' \/ Len(@) >= 5 THEN @ ELSE Append(@, [h |-> r.h, i |-> r.i, op |-> r.op])]
    /\ i' = i + 1
    /\ TLCSet(1, [res' EXCEPT !.conform = @ + (IF i' > Len(Rec) /\ ~dead' THEN 1 ELSE 0)])
    /\ UNCHANGED <<hist, nlog, done, I, ok>>
ConfSpec == ConfInit /\ [][ConfNext]_cvars
ConfPost == PrintT(<<"CONFORMANCE", ToJson(TLCGet(1))>>)
=============================================================================
