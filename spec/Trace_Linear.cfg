SPECIFICATION Spec
POSTCONDITION Post
CHECK_DEADLOCK FALSE
