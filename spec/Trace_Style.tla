----------------------------- MODULE Trace_Style -----------------------------
(* MONITOR for C14: traces recorded by harness `stylebuild` from the real    *)
(* ProgressStyle builder and real draws, judged against StyleBuilder.tla:     *)
(*   invalid arguments <=> the builder call panics (BuildRule),               *)
(*   a style that was built never panics in a draw, on the steady-tick        *)
(*   thread, in a later call on the same bar, or in get_tick_str (UseRule).   *)
EXTENDS StyleBuilder, Json, IOUtils, TLC
Rec == ndJsonDeserialize(IOEnv.TRACE)
VARIABLES i, dead, bad, st
vars == <<i, dead, bad, st>>
St0 == [recs |-> 0, hists |-> 0, builds |-> 0, built |-> 0, rejected |-> 0, errs |-> 0, free |-> 0, freeBuilt |-> 0,
        draws |-> 0, steadies |-> 0, laters |-> 0, tickstrs |-> 0, skipped |-> 0]

Rule(r) ==
    IF r.op = "abort" THEN "NoAbort"
    ELSE IF r.res = "skip" THEN ""
    ELSE IF r.op \in BuilderOps THEN BuildRule(r, r.res)
    ELSE UseRule(r.op, r.res)

Count(s, r) ==
    IF r.op = "abort" THEN [s EXCEPT !.recs = @ + 1]
    ELSE IF r.res = "skip" THEN [s EXCEPT !.recs = @ + 1, !.skipped = @ + 1]
    ELSE IF r.op \in BuilderOps THEN
        [s EXCEPT !.recs = @ + 1, !.builds = @ + 1,
                  !.built = @ + (IF Expect(r) = "Built" /\ r.res = "ok" THEN 1 ELSE 0),
                  !.rejected = @ + (IF Expect(r) = "RejectedAtBuild" /\ r.res = "panic" THEN 1 ELSE 0),
                  !.errs = @ + (IF r.res = "err" THEN 1 ELSE 0),
                  !.free = @ + (IF Expect(r) = "Either" THEN 1 ELSE 0),
                  !.freeBuilt = @ + (IF Expect(r) = "Either" /\ r.res = "ok" THEN 1 ELSE 0)]
    ELSE [s EXCEPT !.recs = @ + 1,
                   !.draws = @ + (IF r.op \in DrawOps THEN 1 ELSE 0),
                   !.steadies = @ + (IF r.op = "steady" THEN 1 ELSE 0),
                   !.laters = @ + (IF r.op = "later" THEN 1 ELSE 0),
                   !.tickstrs = @ + (IF r.op \in {"tickstr", "finalstr"} THEN 1 ELSE 0)]

Init == /\ i = 1 /\ dead = TRUE /\ bad = <<>> /\ st = St0
        /\ TLCSet(1, <<>>) /\ TLCSet(2, St0) /\ TLCSet(3, 1)
Next ==
    /\ i <= Len(Rec)
    /\ \E r \in {Rec[i]} :
       IF r.op = "init" THEN /\ dead' = FALSE /\ bad' = bad /\ st' = [st EXCEPT !.recs = @ + 1, !.hists = @ + 1]
       ELSE IF dead THEN UNCHANGED <<dead, bad>> /\ st' = [st EXCEPT !.recs = @ + 1]
       ELSE \E rule \in {Rule(r)} :
            /\ dead' = (rule # "")
            /\ bad' = IF rule = "" THEN bad ELSE Append(bad, [h |-> r.h, i |-> r.i, rule |-> rule, op |-> r.op])
            /\ st' = Count(st, r)
    /\ i' = i + 1
    /\ TLCSet(1, bad') /\ TLCSet(2, st') /\ TLCSet(3, i')
Spec == Init /\ [][Next]_vars
Post == PrintT(<<"VERDICTS", ToJson([consumed |-> TLCGet(3) - 1, total |-> Len(Rec), bad |-> TLCGet(1), st |-> TLCGet(2)])>>)
=============================================================================
