---------------------------- MODULE BarGeometry ----------------------------
(***************************************************************************)
(* CONTRACT for property C13: the geometry of {bar:N} and {wide_bar}, in   *)
(* exact integer arithmetic.                                               *)
(*                                                                         *)
(*   N      field width in columns, c in {1,2} columns per progress        *)
(*          cluster, chars = the configured clusters (first = filled,      *)
(*          last = background, any = partial), len/pos <= 2^24 + 1         *)
(*   cells  = N div c                                                      *)
(*   filled = cells   iff pos >= len (or len = 0)                          *)
(*          = 0       at pos = 0 or when the length is unknown             *)
(*          = floor(pos * cells / len) otherwise, where the quotient       *)
(*            q = pos*cells/len may be taken with the error of single      *)
(*            precision arithmetic: any f with f <= q' <= f + 1 for some   *)
(*            q' within cells * 2^-21 of q is accepted.  For len <= 2^16   *)
(*            this is exactly "floor(q), or q - 1 when q is integral";     *)
(*            it never applies at the empty or the full end.               *)
(*   head   = 1 iff 0 < pos < len (and there is a cell for it)             *)
(*   layout = filled x chars[1], head x (some configured cluster),         *)
(*            (cells - filled - head) x chars[last]                        *)
(*   filled is monotone in pos                                             *)
(*   wide_bar: the bar gets the columns the rest of the line leaves of the *)
(*            terminal width W: the line is never wider than W and less    *)
(*            than c columns narrower, whenever the rest fits              *)
(***************************************************************************)
EXTENDS Cells, Integers, FiniteSets, TLC

NCells(N, c) == N \div c
Tol(cells, len) == (cells * len) \div 2097152            \* cells * len * 2^-21, in units of 1/len

FilledOK(f, cells, haslen, len, pos) ==
    IF cells = 0 THEN f = 0
    ELSE IF ~haslen THEN f = 0
    ELSE IF len = 0 /\ pos = 0 THEN f \in {0, cells}      \* "zero at position 0" and "full whenever pos >= len" both apply
    ELSE IF len = 0 \/ pos >= len THEN f = cells
    ELSE IF pos = 0 THEN f = 0
    ELSE /\ 0 <= f /\ f < cells                             \* full only when pos >= len (len <= 2^24)
         /\ f * len <= pos * cells + Tol(cells, len)
         /\ pos * cells - Tol(cells, len) <= (f + 1) * len

HeadOf(cells, haslen, len, pos) == IF cells > 0 /\ haslen /\ 0 < pos /\ pos < len THEN 1 ELSE 0

(* bar B has the layout filled* head? background* with f filled cells and h head cells *)
Layout(B, f, h, cells, chars) ==
    /\ Len(B) = cells /\ f + h <= cells
    /\ \A j \in 1..f : B[j] = chars[1]
    /\ (h = 1 => \E g \in 1..Len(chars) : B[f + 1] = chars[g])
    /\ \A j \in (f + h + 1)..cells : B[j] = chars[Len(chars)]

Layouts(B, cells, chars) == {p \in (0..cells) \X {0, 1} : Layout(B, p[1], p[2], cells, chars)}

(* strip blanks at both ends (the padding of the field; progress clusters are never blanks here) *)
RECURSIVE LeadSP(_, _)
LeadSP(s, j) == IF j > Len(s) \/ s[j] # SP THEN 0 ELSE 1 + LeadSP(s, j + 1)
RECURSIVE TrailSP(_, _)
TrailSP(s, n) == IF n = 0 \/ s[n] # SP THEN 0 ELSE 1 + TrailSP(s, n - 1)
StripSP(s) == IF LeadSP(s, 1) = Len(s) THEN <<>> ELSE SubSeq(s, LeadSP(s, 1) + 1, Len(s) - TrailSP(s, Len(s)))

SetMin(S) == CHOOSE x \in S : \A y \in S : x <= y

(***************************************************************************)
(* Reference (design level): the exact-arithmetic bar.                     *)
(***************************************************************************)
RefFilled(cells, haslen, len, pos) ==
    IF cells = 0 \/ ~haslen THEN 0 ELSE IF len = 0 \/ pos >= len THEN cells ELSE (pos * cells) \div len
RefBar(cells, haslen, len, pos, chars) ==
    LET f == RefFilled(cells, haslen, len, pos)
        h == HeadOf(cells, haslen, len, pos)
    IN Rep(chars[1], f) \o (IF h = 1 THEN <<chars[IF Len(chars) = 2 THEN 2 ELSE 2]>> ELSE <<>>) \o Rep(chars[Len(chars)], cells - f - h)
=============================================================================
