------------------------------ MODULE MC_Field ------------------------------
(* Behaviour generator for C12.  TLC enumerates every content of up to     *)
(* MaxLen cells over Alphabet; for each content one behaviour is printed   *)
(* whose operations are all combinations of width x alignment x truncation *)
(* (kind "msg" / "prefix": template [{msg:<al><W>[!]}] / [{prefix:...}]) and, if Wide, terminal width  *)
(* x alignment x surrounding literals (kind "wide": pre{wide_msg:<al>}suf).*)
(* Design level: the reference rendering satisfies the contract for every  *)
(* generated case (invariant RefOK); the number of cases in which the      *)
(* byte-slicing model of the unrepaired code (D9) violates it is printed   *)
(* with each behaviour.                                                    *)
EXTENDS Field, Json, FiniteSets
CONSTANTS MaxLen, Alphabet, Ws, Aligns, Wide, TWs, Kinds
VARIABLES s, done
vars == <<s, done>>

Pres == {<<>>, <<120>>, <<1001>>, <<233, 58>>}          \* "", "x", one CJK glyph, "e-acute :"
Sufs == {<<>>, <<121>>, <<1002, 124>>}                   \* "", "y", CJK glyph + "|"

MsgOps(c) == { [op |-> "field", kind |-> kd, m |-> c, w |-> W, al |-> a, tr |-> t, pre |-> <<91>>, suf |-> <<93>>, tw |-> IF W < 100 THEN 200 ELSE 65535] :
                 kd \in Kinds, W \in Ws, a \in Aligns, t \in BOOLEAN }
WideOps(c) == IF ~Wide THEN {} ELSE
              { [op |-> "field", kind |-> "wide", m |-> c, w |-> WideWidth(tw, p, q), al |-> a, tr |-> TRUE, pre |-> p, suf |-> q, tw |-> tw] :
                 tw \in TWs, a \in Aligns, p \in Pres, q \in Sufs }
OpsOf(c) == MsgOps(c) \cup WideOps(c)

RECURSIVE SetToSeq(_)
SetToSeq(S) == IF S = {} THEN <<>> ELSE LET x == CHOOSE x \in S : TRUE IN <<x>> \o SetToSeq(S \ {x})

OldBad(c) == Cardinality({o \in MsgOps(c) : ~FieldOK(OldField(o.m, o.w, o.al, o.tr), o.m, o.w, o.al, o.tr)})

Init == s = <<>> /\ done = FALSE
Step == ~done /\ Len(s) < MaxLen /\ \E g \in Alphabet : s' = Append(s, g) /\ UNCHANGED done
Emit == /\ ~done
        /\ PrintT(<<"REPLAY", ToJson([ops |-> SetToSeq(OpsOf(s)), oldbad |-> OldBad(s)])>>)
        /\ done' = TRUE /\ UNCHANGED s
Next == Step \/ Emit
Spec == Init /\ [][Next]_vars

(* design level: the reference rendering is accepted by the contract in every generated case *)
RefOK == \A o \in OpsOf(s) :
            LET F == RefField(o.m, o.w, o.al, o.tr) IN
            /\ FieldOK(F, o.m, o.w, o.al, o.tr)
            /\ LineOK(o.pre \o F \o o.suf, o.pre, o.suf, o.m, o.w, o.al, o.tr, o.kind = "wide")
TypeOK == Len(s) <= MaxLen /\ RefOK
=============================================================================
