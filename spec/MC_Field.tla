------------------------------ MODULE MC_Field ------------------------------
(* Behaviour generator for C12.  TLC enumerates every content of up to     *)
(* MaxLen cells over Alphabet; for each content one behaviour is printed   *)
(* whose operations are all combinations of width x alignment x truncation *)
(* (kind "msg" / "prefix": template [{msg:<al><W>[!]}] / [{prefix:...}]) and, if Wide, terminal width  *)
(* x alignment x surrounding literals (kind "wide": pre{wide_msg:<al>}suf).*)
(* Design level: the reference rendering satisfies the contract for every  *)
(* generated case (invariant RefOK); the number of cases in which the      *)
(* byte-slicing model of the unrepaired code (D9) violates it is printed   *)
(* with each behaviour.                                                    *)
EXTENDS Field, Json, FiniteSets
CONSTANTS MaxLen, Alphabet, Ws, Aligns, Wide, TWs, Kinds,
          BarWs,     \* widths W of [{bar:<al><W>}] fields (1- and 2-column progress clusters; printed once, with the empty content); {} = none
          Sty,       \* a style suffix of the field ("" or ".red": colours are off, the style changes nothing that is painted)
          NarrowTWs, \* terminal widths narrower than some field widths: the field keeps its width W whatever the terminal width is; {} = none
          Wide2      \* TRUE: also {prefix:P} {wide_msg:<al>}suf - the text in front of the wide element comes from another field, which may overflow its width
VARIABLES s, done
vars == <<s, done>>

Pres == {<<>>, <<120>>, <<1001>>, <<233, 58>>}          \* "", "x", one CJK glyph, "e-acute :"
Sufs == {<<>>, <<121>>, <<1002, 124>>}                   \* "", "y", CJK glyph + "|"

(* one record shape for all kinds: cw / chars belong to kind "bar", pw / pm (width and content of the prefix field) to kind "wide2" *)
X0 == [cw |-> 0, chars |-> <<>>, pw |-> 0, pm |-> <<>>, sty |-> Sty]
MsgOps(c) == { [op |-> "field", kind |-> kd, m |-> c, w |-> W, al |-> a, tr |-> t, pre |-> <<91>>, suf |-> <<93>>, tw |-> IF W < 100 THEN 200 ELSE 65535] @@ X0 :
                 kd \in Kinds, W \in Ws, a \in Aligns, t \in BOOLEAN }
             \cup { [op |-> "field", kind |-> kd, m |-> c, w |-> W, al |-> a, tr |-> t, pre |-> <<91>>, suf |-> <<93>>, tw |-> tw] @@ X0 :
                 kd \in Kinds, W \in Ws, a \in Aligns, t \in BOOLEAN, tw \in NarrowTWs }
WideOps(c) == IF ~Wide THEN {} ELSE
              { [op |-> "field", kind |-> "wide", m |-> c, w |-> WideWidth(tw, p, q), al |-> a, tr |-> TRUE, pre |-> p, suf |-> q, tw |-> tw] @@ X0 :
                 tw \in TWs, a \in Aligns, p \in Pres, q \in Sufs }
(* a progress bar inside a field of W columns: floor(W/c) clusters of c columns, the rest is padding on the side(s) of the alignment *)
BarChars(c) == IF c = 1 THEN <<35, 62, 45>> ELSE <<1000, 1001, 1002>>
BarOps(c) == IF c # <<>> THEN {} ELSE
             { [op |-> "field", kind |-> "bar", m |-> <<>>, w |-> W, al |-> a, tr |-> FALSE, pre |-> <<91>>, suf |-> <<93>>, tw |-> 200, cw |-> k, chars |-> BarChars(k), pw |-> 0, pm |-> <<>>, sty |-> ""] :
                 W \in BarWs, a \in Aligns \cup {""}, k \in {1, 2} }
(* the text in front of the wide element is itself a field: {prefix:P} followed by a blank; a prefix wider than P is kept unshortened *)
PreFields == { <<2, <<112>>>>, <<2, <<112, 113, 114, 115>>>>, <<3, <<1001, 1002>>>>, <<0, <<112, 113>>>> }
Wide2Ops(c) == IF ~Wide2 THEN {} ELSE
               { [op |-> "field", kind |-> "wide2", m |-> c, w |-> WideWidth(tw, RefField(pf[2], pf[1], "<", FALSE) \o <<32>>, q), al |-> a, tr |-> TRUE,
                  pre |-> RefField(pf[2], pf[1], "<", FALSE) \o <<32>>, suf |-> q, tw |-> tw, cw |-> 0, chars |-> <<>>, pw |-> pf[1], pm |-> pf[2], sty |-> ""] :
                 tw \in TWs, a \in Aligns, pf \in PreFields, q \in {<<>>, <<124>>} }
(* two lines with a wide element each, of different alignment: the second line is judged (pw carries the first line's alignment: 1 = "<", 2 = "^", 3 = ">") *)
AlCode(a) == IF a = "^" THEN 2 ELSE IF a = ">" THEN 3 ELSE 1
WideLineOps(c) == IF ~Wide2 THEN {} ELSE
               { [op |-> "field", kind |-> "wide2l", m |-> c, w |-> WideWidth(tw, <<91>>, <<93>>), al |-> a, tr |-> TRUE, pre |-> <<91>>, suf |-> <<93>>, tw |-> tw,
                  cw |-> 0, chars |-> <<>>, pw |-> AlCode(a1), pm |-> <<>>, sty |-> ""] : tw \in TWs, <<a, a1>> \in {p \in Aligns \X Aligns : p[1] # p[2]} }
OpsOf(c) == MsgOps(c) \cup WideOps(c) \cup BarOps(c) \cup Wide2Ops(c) \cup WideLineOps(c)

RECURSIVE SetToSeq(_)
SetToSeq(S) == IF S = {} THEN <<>> ELSE LET x == CHOOSE x \in S : TRUE IN <<x>> \o SetToSeq(S \ {x})

OldBad(c) == Cardinality({o \in MsgOps(c) : ~FieldOK(OldField(o.m, o.w, o.al, o.tr), o.m, o.w, o.al, o.tr)})

Init == s = <<>> /\ done = FALSE
Step == ~done /\ Len(s) < MaxLen /\ \E g \in Alphabet : s' = Append(s, g) /\ UNCHANGED done
Emit == /\ ~done
        /\ PrintT(<<"REPLAY", ToJson([ops |-> SetToSeq(OpsOf(s)), oldbad |-> OldBad(s)])>>)
        /\ done' = TRUE /\ UNCHANGED s
Next == Step \/ Emit
Spec == Init /\ [][Next]_vars

(* design level: the reference rendering is accepted by the contract in every generated case *)
RefOK == \A o \in OpsOf(s) :
            LET F == RefField(o.m, o.w, o.al, o.tr) IN
            /\ FieldOK(F, o.m, o.w, o.al, o.tr)
            /\ LineOK(o.pre \o F \o o.suf, o.pre, o.suf, o.m, o.w, o.al, o.tr, o.kind \in {"wide", "wide2", "wide2l"})
TypeOK == Len(s) <= MaxLen /\ RefOK
=============================================================================
