------------------------------ MODULE Formats ------------------------------
(***************************************************************************)
(* CONTRACT for the human-readable formatters (property C15).              *)
(* Text is a sequence of cells (ASCII codes); naturals are base-2^15 limb  *)
(* sequences of U64.tla, so every comparison below is exact.               *)
(*                                                                         *)
(*   HumanCount(n)        decimal digits of n, comma after every third     *)
(*                        digit counted from the right                     *)
(*   HumanFloat(std)      std = Rust's own fixed-precision rendering       *)
(*                        `{:.p}` of the value (an input fact): sign,      *)
(*                        Group3(integer digits), "." and the fraction     *)
(*                        with trailing zeros trimmed; NaN/inf unchanged   *)
(*   FormattedDur(secs)   [Dd ]HH:MM:SS of the whole seconds               *)
(*   BytesOK(n,base,out)  largest prefix k with base^k <= n; the printed   *)
(*                        number h/100 is n/base^k rounded to two decimals *)
(*                        (ties either way); whole number for plain bytes  *)
(*   HumanDurOK(D,out)    unit = first of year..minute with                *)
(*                        d + next/2 >= 1.5 unit, else seconds;            *)
(*                        count = round(d/unit), at least 2 above seconds; *)
(*                        singular only for "1 second"                     *)
(*   Mono(prev,cur)       (unit rank, count) is monotone in the duration   *)
(*                                                                         *)
(* Slack.  The library computes bytes and durations in f64.  Slack(x) =    *)
(* x div 2^45 (relative 2.8e-14, zero below 2^45) is the only tolerance:   *)
(* byte values below 32 TiB and durations below 9.7 hours are held to the  *)
(* exact law; the +-1 ms unit boundaries up to 60.5 years stay decisive    *)
(* (slack < 0.06 ms there).                                                *)
(***************************************************************************)
EXTENDS U64, TLC

IsDigit(c) == c \in 48..57
AllDigits(s) == \A j \in 1..Len(s) : IsDigit(s[j])
(* canonical natural: no leading zero unless it is "0" *)
Canon(s) == s # <<>> /\ AllDigits(s) /\ (Len(s) = 1 \/ s[1] # 48)

RECURSIVE G3(_, _)
G3(ds, j) == IF j > Len(ds) THEN <<>>
             ELSE LET rest == Len(ds) - j IN
                  <<ds[j]>> \o (IF rest > 0 /\ rest % 3 = 0 THEN <<44>> ELSE <<>>) \o G3(ds, j + 1)
Group3(ds) == G3(ds, 1)

HumanCount(n) == Group3(DecDigits(n))

(* ---- HumanFloatCount ---- *)
HasDigit(s) == \E j \in 1..Len(s) : IsDigit(s[j])
Neg(s) == s # <<>> /\ s[1] = 45
Body(s) == IF Neg(s) THEN SubSeq(s, 2, Len(s)) ELSE s
DotPos(s) == IF \E j \in 1..Len(s) : s[j] = 46 THEN CHOOSE j \in 1..Len(s) : s[j] = 46 ELSE 0
IntPart(b) == IF DotPos(b) = 0 THEN b ELSE SubSeq(b, 1, DotPos(b) - 1)
FracPart(b) == IF DotPos(b) = 0 THEN <<>> ELSE SubSeq(b, DotPos(b) + 1, Len(b))
RECURSIVE TrimZ(_)
TrimZ(s) == IF s # <<>> /\ s[Len(s)] = 48 THEN TrimZ(SubSeq(s, 1, Len(s) - 1)) ELSE s
(* the input fact has the shape Rust documents for {:.p}: [-]digits[.digits] or NaN / inf / -inf *)
StdShape(std) == IF HasDigit(std) THEN Canon(IntPart(Body(std))) /\ AllDigits(FracPart(Body(std)))
                 ELSE std \in {<<78, 97, 78>>, <<105, 110, 102>>, <<45, 105, 110, 102>>}
HumanFloat(std) ==
    IF ~HasDigit(std) THEN std
    ELSE LET b == Body(std)
             t == TrimZ(FracPart(b))
         IN (IF Neg(std) THEN <<45>> ELSE <<>>) \o Group3(IntPart(b)) \o (IF t = <<>> THEN <<>> ELSE <<46>> \o t)

(* ---- FormattedDuration ---- *)
Two(k) == <<48 + (k \div 10), 48 + (k % 10)>>
FormattedDur(secs) ==
    LET a == DivMod(secs, 60)
        b == DivMod(a.q, 60)
        c == DivMod(b.q, 24)
    IN (IF IsZero(c.q) THEN <<>> ELSE DecDigits(c.q) \o <<100, 32>>) \o Two(c.r) \o <<58>> \o Two(b.r) \o <<58>> \o Two(a.r)

(* ---- bytes ---- *)
RECURSIVE PowL(_, _)
PowL(b, k) == IF k = 0 THEN <<1>> ELSE MulSmall(PowL(b, k - 1), b)
Slack(x) == IF Len(x) <= 3 THEN <<0>> ELSE SubSeq(x, 4, Len(x))          \* x div 2^45
BinPfx == << <<>>, <<75, 105>>, <<77, 105>>, <<71, 105>>, <<84, 105>>, <<80, 105>>, <<69, 105>> >>
DecPfx == << <<>>, <<107>>, <<77>>, <<71>>, <<84>>, <<80>>, <<69>> >>
Pfx(base) == IF base = 1024 THEN BinPfx ELSE DecPfx
PrefixOK(n, base, k) ==
    /\ (k = 0 \/ Le(PowL(base, k), Add(n, Slack(n))))
    /\ Lt(n, Add(PowL(base, k + 1), Slack(n)))
RECURSIVE ToNat(_, _)
ToNat(d, i) == IF i = 0 THEN 0 ELSE ToNat(d, i - 1) * 10 + (d[i] - 48)
SpacePos(s) == IF \E j \in 1..Len(s) : s[j] = 32 THEN CHOOSE j \in 1..Len(s) : s[j] = 32 /\ \A m \in 1..(j - 1) : s[m] # 32 ELSE 0
(* number part "ip.dd" -> hundredths, or -1 *)
Hundredths(num) ==
    LET dp == DotPos(num) IN
    IF dp = 0 \/ Len(num) # dp + 2 \/ dp > 8 THEN -1
    ELSE LET ip == SubSeq(num, 1, dp - 1)
             fr == SubSeq(num, dp + 1, Len(num))
         IN IF Canon(ip) /\ AllDigits(fr) THEN ToNat(ip, Len(ip)) * 100 + ToNat(fr, 2) ELSE -1
ValueOK(n, base, k, h) ==
    LET P == PowL(base, k) IN
    Le(MulSmall(AbsDiff(Mul(FromSmall(h), P), MulSmall(n, 100)), 2), Add(P, MulSmall(Slack(n), 200)))
BytesK(n, base, k, out) ==
    LET sp == SpacePos(out)
        num == SubSeq(out, 1, sp - 1)
        unit == SubSeq(out, sp + 1, Len(out))
    IN /\ sp > 1
       /\ unit = Pfx(base)[k + 1] \o <<66>>
       /\ PrefixOK(n, base, k)
       /\ IF k = 0 THEN num = DecDigits(n)
          ELSE LET h == Hundredths(num) IN h >= 0 /\ ValueOK(n, base, k, h)
BytesOK(n, base, out) == \E k \in 0..6 : BytesK(n, base, k, out)

(* ---- HumanDuration ---- *)
E9 == FromSmall(1000000000)
DurNs(secs, nanos) == Add(Mul(secs, E9), FromSmall(nanos))
UnitSecs == <<31536000, 604800, 86400, 3600, 60, 1>>                    \* year week day hour minute second
UnitNs(j) == Mul(FromSmall(UnitSecs[j]), E9)
UnitName == << <<121, 101, 97, 114>>, <<119, 101, 101, 107>>, <<100, 97, 121>>, <<104, 111, 117, 114>>,
               <<109, 105, 110, 117, 116, 101>>, <<115, 101, 99, 111, 110, 100>> >>
UnitAlt == <<121, 119, 100, 104, 109, 115>>
(* the stated switching rule: stay on the larger unit iff d + next/2 >= 1.5 unit *)
RECURSIVE Pick(_, _)
Pick(D, j) == IF j = 6 THEN 6
              ELSE IF Le(MulSmall(UnitNs(j), 3), Add(MulSmall(D, 2), UnitNs(j + 1))) THEN j
              ELSE Pick(D, j + 1)
UnitOf(D) == Pick(D, 1)
RECURSIVE FromDecTo(_, _)
FromDecTo(d, i) == IF i = 0 THEN <<0>> ELSE Add(MulSmall(FromDecTo(d, i - 1), 10), <<d[i] - 48>>)
FromDec(d) == FromDecTo(d, Len(d))
(* c = round-half-up(D / U) up to the slack *)
Nearest(D, U, c) ==
    LET twoD == MulSmall(D, 2)
        twoCU == MulSmall(Mul(c, U), 2)
        tol2 == MulSmall(Slack(D), 2)
    IN /\ Le(twoCU, Add(Add(twoD, U), tol2))
       /\ Lt(Add(twoD, U), Add(Add(twoCU, MulSmall(U, 2)), tol2))
Forced2(D, j, c) == j < 6 /\ Eq(c, <<2>>) /\ Lt(MulSmall(D, 2), MulSmall(UnitNs(j), 3))
CountOK(D, j, c) ==
    IF j < 6 THEN Le(<<2>>, c) /\ (Nearest(D, UnitNs(j), c) \/ Forced2(D, j, c))
    ELSE Nearest(D, UnitNs(j), c)
RECURSIVE DigitsEnd(_, _)
DigitsEnd(s, j) == IF j <= Len(s) /\ IsDigit(s[j]) THEN DigitsEnd(s, j + 1) ELSE j - 1   \* last index of the leading digit run
(* parsed output: count digits, unit index (0 = unknown) *)
HDParse(out, alt) ==
    LET e == DigitsEnd(out, 1)
        cd == SubSeq(out, 1, e)
        rest == SubSeq(out, e + 1, Len(out))
        js == IF alt THEN {j \in 1..6 : rest = <<UnitAlt[j]>>}
              ELSE {j \in 1..6 : rest = <<32>> \o UnitName[j] \/ rest = <<32>> \o UnitName[j] \o <<115>>}
    IN [ok |-> Canon(cd) /\ js # {}, cd |-> cd, rest |-> rest,
        j |-> IF js = {} THEN 0 ELSE CHOOSE j \in js : TRUE,
        c |-> IF Canon(cd) THEN FromDec(cd) ELSE <<0>>]
HumanDurOK(D, out, alt) ==
    LET p == HDParse(out, alt) IN
    /\ p.ok
    /\ p.j = UnitOf(D)
    /\ CountOK(D, p.j, p.c)
    /\ (~alt => p.rest = <<32>> \o UnitName[p.j] \o (IF p.j = 6 /\ Eq(p.c, <<1>>) THEN <<>> ELSE <<115>>))
(* prev, cur: [D, j, c]; smaller j = larger unit *)
Mono(prev, cur) == Le(prev.D, cur.D) => (cur.j < prev.j \/ (cur.j = prev.j /\ Le(prev.c, cur.c)))
=============================================================================
