SPECIFICATION Spec
CONSTANTS W = 3 H = 2 D = 4
VIEW View
INVARIANT TypeOK
INVARIANT Emit
CHECK_DEADLOCK FALSE
