----------------------------- MODULE MC_Logical -----------------------------
(* Behaviour generator for C07: every sequence of D operations with        *)
(* arguments from the u64 boundary set, on a bar whose initial length is   *)
(* one of the boundary values or unknown.                                  *)
EXTENDS Logical, Json, FiniteSets
CONSTANTS D, Target
VARIABLES L, hist, done
vars == <<L, hist, done>>

P32 == <<0, 0, 4, 0, 0>>                 \* 2^32
P63 == <<0, 0, 0, 0, 8>>                 \* 2^63
Args == {Zero, FromSmall(1), FromSmall(2), P32, P63, Sub(MaxU64, FromSmall(1)), MaxU64}
LenArgs == {Zero, FromSmall(1), FromSmall(3), P32, MaxU64}

Op1(name, a) == [op |-> name, b |-> 1, n |-> a, dt |-> 1000]
Op0(name) == [op |-> name, b |-> 1, dt |-> 1000]
Ops == { Op1(nm, a) : nm \in {"inc", "dec", "set_position", "update_pos", "inc_length", "dec_length"}, a \in Args }
       \cup { Op1("set_length", a) : a \in LenArgs }
       \cup { Op0(nm) : nm \in {"unset_length", "reset", "finish", "abandon", "finish_and_clear", "tick", "finish_using_style"} }

Fins == {"AndLeave", "Abandon"}
News == { [op |-> "new", b |-> 1, nolen |-> FALSE, len |-> l, tpl |-> "CP", fin |-> f, fm |-> <<>>, m0 |-> <<>>, p0 |-> <<>>, pos0 |-> 0, tabw |-> 8,
           target |-> Target, hz |-> 0, dt |-> 0] : l \in LenArgs, f \in Fins } \cup
        { [op |-> "new", b |-> 1, nolen |-> TRUE, len |-> -1, tpl |-> "CP", fin |-> "AndLeave", fm |-> <<>>, m0 |-> <<>>, p0 |-> <<>>, pos0 |-> 0, tabw |-> 8, target |-> Target, hz |-> 0, dt |-> 0] }

Init == L = LInit(FALSE, Zero) /\ hist = <<>> /\ done = FALSE
Step == /\ Len(hist) < D
        /\ IF hist = <<>>
           THEN \E o \in News : L' = LInitF(~o.nolen, IF o.nolen THEN Zero ELSE o.len, o.fin) /\ hist' = <<o>>
           ELSE \E o \in Ops : L' = LApply(L, o) /\ hist' = Append(hist, o)
        /\ UNCHANGED done
Emit == /\ Len(hist) = D /\ ~done
          /\ PrintT(<<"REPLAY", ToJson([cfg |-> [w |-> 80, h |-> 5, base |-> 0, probe |-> TRUE], ops |-> hist])>>)
          /\ done' = TRUE /\ UNCHANGED <<L, hist>>
Next == Step \/ Emit
Spec == Init /\ [][Next]_vars
TypeOK == IsU64(L.pos) /\ IsU64(L.len)
=============================================================================
