------------------------------- MODULE Screen -------------------------------
(***************************************************************************)
(* CONTRACT for everything a progress bar or a MultiProgress puts on the   *)
(* terminal (properties C01 C02 C03 C04 C16 C19).                          *)
(*                                                                         *)
(* The contract state S says what a user may rely on, independently of how *)
(* the library keeps its books:                                            *)
(*   above : what sits above the live region, top to bottom: log lines     *)
(*           (println / suspend output, in emission order) and static      *)
(*           blocks (final renderings of visibly finished bars whose last  *)
(*           handle was dropped and that have no live bar above them)      *)
(*   order : the members below that, in the order defined by               *)
(*           add/insert*/remove (live bars and static blocks that still    *)
(*           have a live bar above them)                                   *)
(*   bars  : per bar its logical state and pend, the rendering of its      *)
(*           state at its most recent draw request                         *)
(* Apply(S, r) advances S by one logged public call r.  Expected screens   *)
(* are laid out with Term!Layout, i.e. with the terminal's own wrapping    *)
(* rule.  Nothing here mentions last_line_count, zombies, orphan lines or  *)
(* any other implementation book-keeping.                                  *)
(***************************************************************************)
EXTENDS Term, TLC, FiniteSets

NoLen == -1

(* Draw-target names shared with the api driver.  `pipe` is a console::Term over a pipe; `stderr_* / stdout_* / default_*` are the  *)
(* process's own streams (ProgressDrawTarget::stderr(), stdout(), and the target that ProgressBar::new / new_spinner / no_length / *)
(* MultiProgress::new pick themselves) with file descriptors 1 and 2 replaced by a pipe (not a tty) or by a pseudo-terminal.        *)
HiddenTargets == {"hidden", "pipe", "stderr_pipe", "stdout_pipe", "default_pipe"}
PtyTargets == {"pty", "stderr_pty", "stdout_pty", "default_pty"}
VisibleTargets == {"spy", "spy_hz"} \cup PtyTargets

(* ---------------------------- templates -------------------------------- *)
(* The template families the drivers use (names shared with api.rs).       *)
PMsg == [k |-> "msg"]
PPre == [k |-> "prefix"]
PPos == [k |-> "pos"]
PLen == [k |-> "len"]
PNl  == [k |-> "nl"]
PKey == [k |-> "key"]
Lit(c) == [k |-> "lit", c |-> c]
Tpl(name) ==
    CASE name = "M"   -> <<PMsg>>
      [] name = "PM"  -> <<PPre, PMsg>>
      [] name = "PnM" -> <<PPre, PNl, PMsg>>
      [] name = "MnC" -> <<PMsg, PNl, PPos, Lit(<<47>>), PLen>>
      [] name = "LM"  -> <<Lit(<<97, 98>>), PMsg>>
      [] name = "TM"  -> <<Lit(<<97, TAB, 98>>), PMsg>>
      [] name = "TB"  -> <<PMsg, Lit(<<TAB, 123, 32, 122, TAB, 125>>)>>      \* {msg}<TAB>{ z<TAB>}: an opening brace followed by a blank stands for itself
      [] name = "TT"  -> <<Lit(<<97, TAB>>), PPos, Lit(<<TAB, 98>>)>>            \* a<TAB>{pos}<TAB>b: two literal parts with a tab each
      [] name = "C"   -> <<PPos, Lit(<<47>>), PLen>>
      [] name = "MC"  -> <<PMsg, PPos>>
      [] name = "KM"  -> <<PKey, PMsg>>
      [] name = "KC"  -> <<PKey, PMsg>>
      [] name = "MP"  -> <<PPos, [k |-> "msgpad"]>>          \* {pos}{msg:7}: the message padded with blanks to 7 columns; the blanks end the line and wrap like any text

(* Text a template part expands to.  Tabs in the message, the prefix,      *)
(* template literals and custom-key output all become tabw spaces (C16).   *)
PartText(p, b) ==
    CASE p.k = "lit"    -> TabX(p.c, b.tabw)
      [] p.k = "msg"    -> TabX(b.msg, b.tabw)
      [] p.k = "prefix" -> TabX(b.prefix, b.tabw)
      [] p.k = "pos"    -> Dec(b.pos)
      [] p.k = "len"    -> Dec(IF b.len = NoLen THEN b.pos ELSE b.len)   \* missing length renders as the position
      [] p.k = "key"    -> TabX(<<120, TAB, 121>>, b.tabw)
      [] p.k = "msgpad" -> LET v == TabX(b.msg, b.tabw) IN IF Cols(v) < 7 THEN v \o [j \in 1..(7 - Cols(v)) |-> SP] ELSE v

(* Rendering of a bar: in-order concatenation of the parts, one output     *)
(* line per template line, embedded newlines of the texts start new lines. *)
(* Named deviation kept from the code: an empty LAST template line is not  *)
(* emitted (so an entirely empty rendering is zero lines).                 *)
RECURSIVE RenderFrom(_, _, _, _, _)
RenderFrom(parts, i, cur, lines, b) ==
    IF i > Len(parts) THEN (IF cur # <<>> THEN lines \o Split(cur) ELSE lines)
    ELSE IF parts[i].k = "nl" THEN RenderFrom(parts, i + 1, <<>>, lines \o Split(cur), b)
    ELSE RenderFrom(parts, i + 1, cur \o PartText(parts[i], b), lines, b)
Render(b) == IF b.fin = "hid" THEN <<>> ELSE RenderFrom(Tpl(b.tpl), 1, <<>>, <<>>, b)

(* ------------------------------ state ---------------------------------- *)
SInit(w, h, multi, mphid, align) ==
    [w |-> w, h |-> h, multi |-> multi, mphid |-> mphid, align |-> align,
     above |-> <<>>, order |-> <<>>, bars |-> <<>>, ids |-> {}, bottom |-> 0, everBottom |-> align = "bottom", blanked |-> FALSE, faulty |-> FALSE,
     transient |-> FALSE,   \* the injected terminal failure was a single one and has happened: the terminal works again
     pendingOnce |-> FALSE, \* a single failure has been armed and has not happened yet
     wasCut |-> FALSE, pty |-> FALSE,
     unlim |-> FALSE,       \* the MultiProgress draws to a target without refresh rate (term_like): no draw request is ever skipped (set by the monitor from the configuration)
     ghosts |-> FALSE]      \* a member was unlinked by set_draw_target / added again: its old slot still counts for index-based insertion

NewBar(r, vis, inmp) ==
    [tpl |-> r.tpl, msg |-> r.m0, prefix |-> r.p0, pos |-> r.pos0, len |-> r.len, fin |-> "no",
     onfin |-> r.fin, fm |-> r.fm, tabw |-> r.tabw, pend |-> <<>>, drawn |-> FALSE, onscr |-> <<>>,
     vis |-> vis, inmp |-> inmp, alive |-> TRUE, nh |-> 1, static |-> FALSE, mayVanish |-> FALSE,
     born |-> r.t, weak |-> FALSE,
     unlim |-> ~inmp /\ r.target = "spy"]     \* a stand-alone bar on a target without refresh rate       \* creation time (virtual microseconds); a WeakProgressBar exists

Bar(S, b) == S.bars[b]
Visible(S, b) == b \in S.ids /\ S.bars[b].vis
SetBar(S, b, rec) == [S EXCEPT !.bars[b] = rec]

(* Is bar b attached to a target without refresh rate?  Then nothing may skip a draw it requests. *)
Unlimited(S, b) == b \in S.ids /\ (IF S.bars[b].inmp THEN S.unlim ELSE S.bars[b].unlim)
(* operations that request a redraw of their bar (Apply: Req) *)
RequestOps == {"tick", "burst", "inc", "dec", "set_position", "seek_to", "set_length", "unset_length", "inc_length", "dec_length", "set_message", "set_prefix", "reset"}

(* A draw request by bar b: its pending rendering becomes the rendering of *)
(* its current state.                                                      *)
Req(S, b) == IF Visible(S, b)
             THEN [S EXCEPT !.bars[b].pend = Render(S.bars[b]), !.bars[b].drawn = TRUE]
             ELSE S

Remove(seq, x) == SelectSeq(seq, LAMBDA y : y # x)
InsertAt(seq, p, x) == SubSeq(seq, 1, p) \o <<x>> \o SubSeq(seq, p + 1, Len(seq))   \* after the first p elements
IndexOf(seq, x) == CHOOSE j \in 1..Len(seq) : seq[j] = x
InSeq(seq, x) == \E j \in 1..Len(seq) : seq[j] = x

Statics(S) == {b \in S.ids : S.bars[b].static}
(* println / clear / suspend / remove: from now on static blocks may go.   *)
AllowVanish(S) == [S EXCEPT !.bars = [b \in DOMAIN S.bars |-> IF S.bars[b].static THEN [S.bars[b] EXCEPT !.mayVanish = TRUE] ELSE S.bars[b]]]

(* The finish family: position := length (when known) for the finish       *)
(* variants, unchanged for the abandon variants; message replaced if given.*)
FinishRec(B, how, m) ==
    LET full == IF B.len = NoLen THEN B.pos ELSE B.len IN
    CASE how = "AndLeave"           -> [B EXCEPT !.fin = "vis", !.pos = full]
      [] how = "WithMessage"        -> [B EXCEPT !.fin = "vis", !.pos = full, !.msg = m]
      [] how = "AndClear"           -> [B EXCEPT !.fin = "hid", !.pos = full]
      [] how = "Abandon"            -> [B EXCEPT !.fin = "vis"]
      [] how = "AbandonWithMessage" -> [B EXCEPT !.fin = "vis", !.msg = m]

SatSub(a, b) == IF a >= b THEN a - b ELSE 0

(* Result of applying an operation: the new state, the lines it adds to    *)
(* the log, whether a paint is obligatory, whether that paint shows the    *)
(* region empty (MultiProgress::clear).                                    *)
Res(S, log, forced, blank) == [S |-> S, log |-> log, forced |-> forced, blank |-> blank]
Plain(S) == Res(S, <<>>, FALSE, FALSE)

LogItem(l) == [k |-> "log", l |-> l]
StItem(b) == [k |-> "st", b |-> b]

(* what a MultiProgress leaves on its old terminal when it is given another target: the lines painted last, as plain text *)
ShownAsText(S, x) == IF S.bars[x].drawn /\ ~S.blanked THEN [j \in 1..Len(S.bars[x].onscr) |-> LogItem(S.bars[x].onscr[j])] ELSE <<>>
RECURSIVE LeftItems(_, _, _)
LeftItems(S, items, j) == IF j > Len(items) THEN <<>>
                          ELSE (IF items[j].k = "log" THEN <<items[j]>> ELSE ShownAsText(S, items[j].b)) \o LeftItems(S, items, j + 1)
RECURSIVE LeftOrder(_, _, _)
LeftOrder(S, o, j) == IF j > Len(o) THEN <<>> ELSE ShownAsText(S, o[j]) \o LeftOrder(S, o, j + 1)

Apply(S, r) ==
    LET b == r.b
        B == S.bars[b]
        vis == Visible(S, b)
        fin(how, m) == Res(Req(SetBar(S, b, FinishRec(B, how, m)), b), <<>>, vis, FALSE)
    IN
    CASE r.op = "new" ->
            LET v == r.target \in VisibleTargets IN      \* PtyTargets: a real console::Term on a pseudo-terminal
            Plain([S EXCEPT !.bars = S.bars @@ (b :> NewBar(r, v, FALSE)), !.ids = S.ids \cup {b},
                            !.order = IF v THEN Append(S.order, b) ELSE S.order, !.pty = r.target \in PtyTargets])
      [] r.op \in {"add", "insert", "insert_from_back", "insert_before", "insert_after"} ->
            LET o == S.order
                p == CASE r.op = "add" -> Len(o)
                       [] r.op = "insert" -> Min(r.idx, Len(o))
                       [] r.op = "insert_from_back" -> SatSub(Len(o), r.idx)
                       [] r.op = "insert_before" -> IndexOf(o, r.b2) - 1
                       [] r.op = "insert_after" -> IndexOf(o, r.b2)
            IN Plain([S EXCEPT !.bars = S.bars @@ (b :> NewBar(r, ~S.mphid, TRUE)), !.ids = S.ids \cup {b},
                               !.order = InsertAt(o, p, b)])
      [] r.op \in {"tick", "burst"} -> Plain(Req(S, b))     \* burst = n ticks at one instant
      [] r.op = "inc"           -> Plain(Req(SetBar(S, b, [B EXCEPT !.pos = B.pos + r.n]), b))
      [] r.op = "dec"           -> Plain(Req(SetBar(S, b, [B EXCEPT !.pos = B.pos - r.n]), b))
      [] r.op \in {"set_position", "seek_to"} -> Plain(Req(SetBar(S, b, [B EXCEPT !.pos = r.n]), b))     \* seek_to: a seek through the Seek adaptor sets the position to the new offset
      [] r.op = "set_length"    -> Plain(Req(SetBar(S, b, [B EXCEPT !.len = r.n]), b))
      [] r.op = "unset_length"  -> Plain(Req(SetBar(S, b, [B EXCEPT !.len = NoLen]), b))
      [] r.op = "inc_length"    -> Plain(Req(SetBar(S, b, [B EXCEPT !.len = IF B.len = NoLen THEN NoLen ELSE B.len + r.n]), b))
      [] r.op = "dec_length"    -> Plain(Req(SetBar(S, b, [B EXCEPT !.len = IF B.len = NoLen THEN NoLen ELSE SatSub(B.len, r.n)]), b))
      [] r.op = "set_message"   -> Plain(Req(SetBar(S, b, [B EXCEPT !.msg = r.m]), b))
      [] r.op = "set_prefix"    -> Plain(Req(SetBar(S, b, [B EXCEPT !.prefix = r.m]), b))
      [] r.op \in {"set_style", "restyle"} -> Plain(SetBar(S, b, [B EXCEPT !.tpl = r.tpl]))   \* documented: does not redraw
      [] r.op = "copy_style" -> Plain(IF r.b2 \in S.ids THEN SetBar(S, b, [B EXCEPT !.tpl = S.bars[r.b2].tpl]) ELSE S)     \* the template of the other bar, this bar's own tab width
                                                                                              \* (restyle = style().template(..) put back with set_style)
      [] r.op = "set_tab_width" -> Res(Req(SetBar(S, b, [B EXCEPT !.tabw = r.n]), b), <<>>, vis, FALSE)
      [] r.op = "reset"         -> Plain(Req(SetBar(S, b, [B EXCEPT !.pos = 0, !.fin = "no", !.born = r.t]), b))   \* also restarts the elapsed time
      [] r.op = "reset_elapsed" -> Plain(SetBar(S, b, [B EXCEPT !.born = r.t]))
      [] r.op = "reset_eta"     -> Plain(S)
      [] r.op = "downgrade"     -> Plain(SetBar(S, b, [B EXCEPT !.weak = TRUE]))
      [] r.op = "finish"               -> fin("AndLeave", <<>>)
      [] r.op = "finish_with_message"  -> fin("WithMessage", r.m)
      [] r.op = "finish_and_clear"     -> fin("AndClear", <<>>)
      [] r.op = "abandon"              -> fin("Abandon", <<>>)
      [] r.op = "abandon_with_message" -> fin("AbandonWithMessage", r.m)
      [] r.op = "finish_using_style"   -> fin(B.onfin, B.fm)
      [] r.op \in {"force_draw", "fburst"} -> Res(Req(S, b), <<>>, vis, FALSE)          \* fburst: n forced draws in a row
      [] r.op = "iter" ->
            (* ProgressBarIter over r.n items: +1 per item, then the finish behaviour once *)
            LET B1 == [B EXCEPT !.pos = B.pos + r.n]
                B2 == IF B.fin = "no" THEN FinishRec(B1, B.onfin, B.fm) ELSE B1
            IN Res(Req(SetBar(S, b, B2), b), <<>>, vis /\ B.fin = "no", FALSE)
      [] r.op = "println" ->
            IF vis THEN Res(AllowVanish(Req(S, b)), TextLines(r.m), TRUE, FALSE) ELSE Plain(S)
      [] r.op = "suspend" ->
            (* the closure's own output is on the terminal whatever the bar's target is *)
            Res(AllowVanish(IF S.multi THEN S ELSE Req(S, b)), Split(r.m), vis, FALSE)
      [] r.op = "clone"    -> Plain(SetBar(S, b, [B EXCEPT !.nh = B.nh + 1]))
      [] r.op = "drop_one" -> Plain(SetBar(S, b, [B EXCEPT !.nh = IF B.nh > 1 THEN B.nh - 1 ELSE B.nh]))
      [] r.op = "drop" ->
            (* last handle gone: an unfinished bar finishes with its configured behaviour *)
            LET B1 == IF B.fin = "no" THEN FinishRec(B, B.onfin, B.fm) ELSE B
                S1 == IF B.fin = "no" THEN Req(SetBar(S, b, B1), b) ELSE S
                B2 == [S1.bars[b] EXCEPT !.alive = FALSE, !.nh = 0]
                gone == B2.inmp /\ (B2.fin = "hid" \/ ~B2.drawn)
                S2 == IF gone THEN [SetBar(S1, b, [B2 EXCEPT !.vis = FALSE]) EXCEPT !.order = Remove(S1.order, b)]
                      (* a bar dropped while the region is cleared (MultiProgress::clear, no paint *)
                      (* since) is not on the terminal and need not come back                      *)
                      (* ... and so is one dropped after the terminal height has cut the region (C02: a bar finished visibly MAY remain): *)
                      (* it may be among the omitted bars at that moment, and what is not on the terminal cannot be kept               *)
                      ELSE SetBar(S1, b, [B2 EXCEPT !.static = B2.inmp /\ B2.vis, !.mayVanish = S1.blanked \/ S1.wasCut])
            IN Res(S2, <<>>, vis /\ B.fin = "no", FALSE)
      [] r.op = "mp_remove" ->
            IF b \in S.ids /\ B.inmp
            (* the MultiProgress repaints at once without the removed bar's lines *)
            THEN Res([SetBar(S, b, [B EXCEPT !.vis = FALSE, !.inmp = FALSE, !.static = FALSE])
                         EXCEPT !.order = Remove(S.order, b),
                                !.above = SelectSeq(S.above, LAMBDA it : ~(it.k = "st" /\ it.b = b))], <<>>, ~S.mphid, FALSE)
            ELSE Plain(S)
      [] r.op \in {"set_target", "to_hidden_mp"} ->
            (* ProgressBar::set_draw_target.  A member of a MultiProgress is unlinked: the MultiProgress repaints without its   *)
            (* lines; a standalone bar just stops using its old target, so what that painted last stays on the terminal as text *)
            (* to_hidden_mp: MultiProgress::add of the bar to ANOTHER MultiProgress, whose target is hidden: the bar leaves this one like above *)
            LET v == r.op = "set_target" /\ r.target \in {"spy", "spy_hz"} IN
            IF S.multi
            THEN IF B.inmp
                 THEN Res([SetBar(S, b, [B EXCEPT !.vis = FALSE, !.inmp = FALSE, !.drawn = FALSE, !.pend = <<>>, !.onscr = <<>>])
                              EXCEPT !.order = Remove(S.order, b), !.ghosts = TRUE], <<>>, vis, FALSE)
                 ELSE Plain(S)
            ELSE LET left == IF vis /\ B.drawn THEN [j \in 1..Len(B.onscr) |-> LogItem(B.onscr[j])] ELSE <<>>
                 IN Plain([SetBar(S, b, [B EXCEPT !.vis = v, !.drawn = FALSE, !.pend = <<>>, !.onscr = <<>>, !.unlim = r.target = "spy"])
                              EXCEPT !.above = S.above \o left, !.order = IF v THEN Append(Remove(S.order, b), b) ELSE Remove(S.order, b),
                                     !.ghosts = S.ghosts \/ (vis /\ B.drawn)])
      [] r.op = "readd" ->
            (* MultiProgress::add of a bar that exists already: it becomes the last member; if it was a member its old lines are *)
            (* cleared at once (and it is painted again by its next draw)                                                       *)
            Res([SetBar(S, b, [B EXCEPT !.vis = ~S.mphid, !.inmp = TRUE, !.drawn = FALSE, !.pend = <<>>, !.onscr = <<>>])
                    EXCEPT !.order = Append(Remove(S.order, b), b), !.ghosts = S.ghosts \/ B.inmp], <<>>, vis /\ B.inmp, FALSE)
      [] r.op = "mp_set_target" ->
            (* MultiProgress::set_draw_target.  The old target is simply no longer used: what it showed last stays where it is, as text *)
            (* (like for a stand-alone bar); from now on the members are hidden / draw to the new target, each from its next request.    *)
            LET v == r.target \in VisibleTargets
                mem == {x \in S.ids : S.bars[x].inmp}
                reset(B0) == [B0 EXCEPT !.vis = v /\ B0.alive, !.drawn = FALSE, !.pend = <<>>, !.onscr = <<>>, !.static = FALSE, !.mayVanish = FALSE]
            IN IF S.mphid
               THEN Plain([S EXCEPT !.mphid = ~v, !.unlim = r.target = "spy",
                                    !.bars = [x \in DOMAIN S.bars |-> IF x \in mem THEN [S.bars[x] EXCEPT !.vis = v /\ S.bars[x].alive] ELSE S.bars[x]]])
               ELSE LET left == LeftItems(S, S.above, 1) \o LeftOrder(S, S.order, 1) IN
                    Plain([S EXCEPT !.mphid = ~v, !.unlim = r.target = "spy", !.blanked = FALSE,
                                    !.above = left, !.order = SelectSeq(S.order, LAMBDA x : S.bars[x].alive),
                                    !.ghosts = S.ghosts \/ (\E x \in mem : S.bars[x].drawn /\ ~S.blanked),
                                    !.bars = [x \in DOMAIN S.bars |-> IF x \in mem THEN reset(S.bars[x]) ELSE S.bars[x]]])
      [] r.op = "mp_println" -> IF S.mphid THEN Plain(S) ELSE Res(AllowVanish(S), TextLines(r.m), TRUE, FALSE)
      [] r.op = "mp_suspend" -> Res(AllowVanish(S), Split(r.m), ~S.mphid, FALSE)
      [] r.op = "mp_clear"   -> IF S.mphid THEN Plain(S) ELSE Res(AllowVanish(S), <<>>, TRUE, TRUE)
      [] r.op = "mp_set_alignment" -> Plain([S EXCEPT !.align = r.a, !.bottom = 0, !.everBottom = @ \/ r.a = "bottom"])
      [] r.op = "write" -> Res(S, Split(r.m), FALSE, FALSE)     \* the application itself prints lines
      [] OTHER -> Plain(S)

(* --------------------------- expected screens -------------------------- *)

RECURSIVE AboveLinesFrom(_, _, _)
AboveLinesFrom(S, items, i) ==
    IF i > Len(items) THEN <<>>
    ELSE (IF items[i].k = "log" THEN <<items[i].l>> ELSE S.bars[items[i].b].pend) \o AboveLinesFrom(S, items, i + 1)
AboveLines(S, items) == AboveLinesFrom(S, items, 1)

RECURSIVE ShownFrom(_, _, _)
ShownFrom(S, order, i) ==
    IF i > Len(order) THEN <<>>
    ELSE (IF S.bars[order[i]].drawn THEN S.bars[order[i]].pend ELSE <<>>) \o ShownFrom(S, order, i + 1)
ShownLines(S, order) == ShownFrom(S, order, 1)

(* C19: when the bar lines need more rows than the terminal has, only the  *)
(* leading lines that fit are painted.                                     *)
RECURSIVE CutFrom(_, _, _, _, _)
CutFrom(lines, i, used, h, w) ==
    IF i > Len(lines) THEN <<>>
    ELSE LET n == LineRows(lines[i], w) IN
         IF used + n > h THEN <<>> ELSE <<lines[i]>> \o CutFrom(lines, i + 1, used + n, h, w)
Cut(lines, h, w) == CutFrom(lines, 1, 0, h, w)

(* static blocks at the head of the order belong to the text above         *)
RECURSIVE HeadMove(_, _, _)
HeadMove(S, above, order) ==
    IF order # <<>> /\ S.bars[order[1]].static
    THEN HeadMove(S, Append(above, StItem(order[1])), Tail(order))
    ELSE [above |-> above, order |-> order]

LastLogIdx(items) == IF \E j \in 1..Len(items) : items[j].k = "log"
                     THEN CHOOSE j \in 1..Len(items) : items[j].k = "log" /\ \A q \in (j + 1)..Len(items) : items[q].k # "log"
                     ELSE 0

(* Candidate layouts of (above, order) after an operation: any subset V of *)
(* the static blocks that may vanish is gone; the new log lines go, as one *)
(* block, anywhere after the last earlier log line.                        *)
Cands(S, newLog) ==
    LET VS == {b \in Statics(S) : S.bars[b].mayVanish}
        gone(V) == LET a1 == SelectSeq(S.above, LAMBDA it : ~(it.k = "st" /\ it.b \in V))
                       o1 == SelectSeq(S.order, LAMBDA x : x \notin V)
                   IN HeadMove(S, a1, o1)
        items == [j \in 1..Len(newLog) |-> LogItem(newLog[j])]
    IN { [above |-> SubSeq(g.above, 1, p) \o items \o SubSeq(g.above, p + 1, Len(g.above)), order |-> g.order, V |-> V, p |-> p]
           : <<g, p, V>> \in UNION { { <<gone(V), q, V>> : q \in (IF newLog = <<>> THEN {Len(gone(V).above)} ELSE LastLogIdx(gone(V).above)..Len(gone(V).above)) } : V \in SUBSET VS }
       }

Blanks(k) == [j \in 1..k |-> <<>>]

(* Does the terminal t show candidate c?  Once bottom alignment has been   *)
(* used, blank rows (the filler rows it reserves, which may end up anywhere *)
(* above the region) are ignored in the comparison; under top alignment the *)
(* rows must agree exactly.                                                 *)
NonBlank(rows) == SelectSeq(rows, LAMBDA row : ~IsBlank(row))
(* A clearing paint (MultiProgress::clear) hides the whole region, static    *)
(* blocks included; whether those come back is decided at the next paint.    *)
LogOnly(items) == SelectSeq(items, LAMBDA it : it.k = "log")

(* Static blocks directly above the live bars may or may not be counted as  *)
(* part of the region that has to fit the terminal height: c.reg of them    *)
(* (the last c.reg items of c.above) are.                                   *)
TrailingStatics(items) ==
    LET idx == {j \in 1..Len(items) : \A q \in j..Len(items) : items[q].k = "st"} IN Cardinality(idx)
TopItems(c) == SubSeq(c.above, 1, Len(c.above) - c.reg)
RegItems(c) == SubSeq(c.above, Len(c.above) - c.reg + 1, Len(c.above))
RegionLines(S, c) == AboveLines(S, RegItems(c)) \o ShownLines(S, c.order)
TopLines(S, c, blank) == AboveLines(S, IF blank THEN LogOnly(c.above) ELSE TopItems(c))
ShownCut(S, c, blank) == IF blank THEN <<>> ELSE Cut(RegionLines(S, c), S.h, S.w)

Shows(S, t, c, blank, k) ==
    LET want == TrimRows(Layout(TopLines(S, c, blank) \o ShownCut(S, c, blank), S.w).rows)
    IN IF S.everBottom THEN NonBlank(AllRows(t)) = NonBlank(want) ELSE AllRows(t) = want

KRange(S) == {0}

WithReg(S, cs) ==
    UNION { { c @@ [reg |-> j] : j \in (IF RowsOf(AboveLines(S, c.above) \o ShownLines(S, c.order), S.w) > S.h
                                          THEN 0..TrailingStatics(c.above) ELSE {0}) } : c \in cs }

Matches(S, t, newLog, blank) ==
    { <<c, k>> \in WithReg(S, Cands(S, newLog)) \X KRange(S) : (blank => c.V = {}) /\ Shows(S, t, c, blank, k) }

(* Is the region cut by the terminal height in candidate c?                *)
IsCut(S, c) == Len(Cut(RegionLines(S, c), S.h, S.w)) < Len(RegionLines(S, c))

(* Static blocks of the region that the cut left out, wholly or in part: a *)
(* finished bar that was dropped while the terminal had no room for it may *)
(* never be painted again (C02: a dropped bar's lines disappear; one that   *)
(* finished visibly MAY remain), so such a block may vanish from then on.   *)
RECURSIVE EndsFrom(_, _, _, _)
EndsFrom(S, bs, j, acc) ==     \* <<bar, index of its last region line>> for the bars of the region
    IF j > Len(bs) THEN {}
    ELSE LET n == acc + (IF S.bars[bs[j]].drawn THEN Len(S.bars[bs[j]].pend) ELSE 0)
         IN {<<bs[j], n>>} \cup EndsFrom(S, bs, j + 1, n)
CutOffStatics(S, c) ==
    LET ri == RegItems(c)
        bs == [j \in 1..Len(ri) |-> ri[j].b] \o c.order
        n == Len(Cut(RegionLines(S, c), S.h, S.w))
    IN {e[1] : e \in {x \in EndsFrom(S, bs, 1, 0) : x[2] > n /\ S.bars[x[1]].static}}
MarkCutOff(S, c, bars) ==
    LET co == CutOffStatics(S, c) IN [b \in DOMAIN bars |-> IF b \in co THEN [bars[b] EXCEPT !.mayVanish = TRUE] ELSE bars[b]]

(* Rows the expected screen occupies, blank ones included.                 *)
ExpRows(S, c, blank, k) == RowsOf(TopLines(S, c, blank) \o ShownCut(S, c, blank), S.w)

(* C03 diagnosis: are all log lines on the screen, once, in order?         *)
RECURSIVE SubRowsFrom(_, _, _, _)
SubRowsFrom(rows, i, want, j) ==   \* is want[j..] a subsequence of rows[i..] ?
    IF j > Len(want) THEN TRUE
    ELSE IF i > Len(rows) THEN FALSE
    ELSE IF rows[i] = want[j] THEN SubRowsFrom(rows, i + 1, want, j + 1)
    ELSE SubRowsFrom(rows, i + 1, want, j)
LogLinesOf(items) == LET ls == SelectSeq(items, LAMBDA it : it.k = "log") IN [j \in 1..Len(ls) |-> ls[j].l]
Count(rows, x) == Cardinality({i \in 1..Len(rows) : rows[i] = x})
(* rows that a bar's rendering (requested or painted last) occupies: a log row that looks like one of them cannot be counted *)
RowSet(lines, w) == LET r == Layout(lines, w).rows IN {r[k] : k \in 1..Len(r)}
BarRowSet(S) == UNION { RowSet(S.bars[b].pend, S.w) \cup RowSet(S.bars[b].onscr, S.w) : b \in S.ids }
LogIntact(S, t, above) ==
    LET want == TrimRows(Layout(LogLinesOf(above), S.w).rows)
        rows == AllRows(t)
        br == BarRowSet(S)
    IN /\ SubRowsFrom(rows, 1, want, 1)
       /\ \A j \in 1..Len(want) : IsBlank(want[j]) \/ want[j] \in br \/ Count(rows, want[j]) = Count(want, want[j])
=============================================================================
