----------------------------- MODULE Trace_Field -----------------------------
(* MONITOR for C12: every record is one rendering of a template with a      *)
(* single msg / wide_msg placeholder between two literals on the real       *)
(* library (harness `field`); the painted line is judged against the        *)
(* contract Field!LineOK.                                                   *)
EXTENDS Field, Json, IOUtils
Rec == ndJsonDeserialize(IOEnv.TRACE)
VARIABLES i, dead, bad, st
vars == <<i, dead, bad, st>>
St0 == [recs |-> 0, hists |-> 0, fields |-> 0, fits |-> 0, overflow_kept |-> 0, trunc |-> 0, trunc_left |-> 0, trunc_centre |-> 0, trunc_right |-> 0,
        straddle |-> 0, zero_width |-> 0, multibyte_trunc |-> 0, wide |-> 0, wide_after_field |-> 0, wide_second_line |-> 0, narrow_terminal |-> 0, wide_after_overflow |-> 0, bar_fields |-> 0, bar_fields_padded |-> 0, wide_trimmed |-> 0, big |-> 0, centre_odd |-> 0]

IsTrunc(r) == ~Fits(r.m, r.w) /\ r.tr
(* the width of a wide_msg field is what the literals leave of the terminal width *)
IsWide(r) == r.kind \in {"wide", "wide2", "wide2l"}
WidthOK(r) == ~IsWide(r) \/ (r.w = WideWidth(r.tw, r.pre, r.suf) /\ r.tr)
(* kind "bar": [{bar:<al><W>}] - the field is W columns wide: floor(W / cw) progress clusters of cw columns each and blanks on the side(s) of the alignment *)
RECURSIVE LeadBl(_, _)
LeadBl(s, j) == IF j > Len(s) \/ s[j] # SP THEN 0 ELSE 1 + LeadBl(s, j + 1)
StripBl(s) == IF LeadBl(s, 1) = Len(s) THEN <<>> ELSE SubSeq(s, LeadBl(s, 1) + 1, Len(s) - TrailSP(s, Len(s)))
BarFieldOK(r) ==
    /\ Len(r.out) >= Len(r.pre) + Len(r.suf)
    /\ SubSeq(r.out, 1, Len(r.pre)) = r.pre /\ SubSeq(r.out, Len(r.out) - Len(r.suf) + 1, Len(r.out)) = r.suf
    /\ LET F == SubSeq(r.out, Len(r.pre) + 1, Len(r.out) - Len(r.suf))
           bar == StripBl(F)
       IN /\ Len(bar) = r.w \div r.cw
          /\ \A j \in 1..Len(bar) : CW(bar[j]) = r.cw /\ \E g \in 1..Len(r.chars) : bar[j] = r.chars[g]
          /\ FieldOK(F, bar, r.w, r.al, FALSE)
Rule(r) ==
    IF r.panic # "" THEN "NoPanic"
    ELSE IF ~WidthOK(r) THEN "InputOK"
    ELSE IF r.tplerr # "" THEN "TemplateOK"
    ELSE IF r.nstr < 1 THEN "Painted"
    ELSE IF r.kind = "bar" THEN (IF BarFieldOK(r) THEN "" ELSE "BarPadOK")
    ELSE IF LineOK(r.out, r.pre, r.suf, r.m, r.w, r.al, r.tr, IsWide(r)) THEN ""
    ELSE IF Fits(r.m, r.w) THEN "PadOK"
    ELSE IF ~r.tr THEN "OverflowKept"
    ELSE "TruncOK"

B(x) == IF x THEN 1 ELSE 0
Count(s, r) ==
    [s EXCEPT !.recs = @ + 1, !.fields = @ + 1,
              !.fits = @ + B(Fits(r.m, r.w)),
              !.overflow_kept = @ + B(~Fits(r.m, r.w) /\ ~r.tr),
              !.trunc = @ + B(IsTrunc(r)),
              !.trunc_left = @ + B(IsTrunc(r) /\ IsLeft(r.al)),
              !.trunc_centre = @ + B(IsTrunc(r) /\ r.al = "^"),
              !.trunc_right = @ + B(IsTrunc(r) /\ r.al = ">"),
              !.straddle = @ + B(IsTrunc(r) /\ \E lo \in Starts(Cols(r.m) - r.w, r.al) : HasStraddler(r.m, lo, lo + r.w)),
              !.zero_width = @ + B(IsTrunc(r) /\ HasZW(r.m)),
              !.multibyte_trunc = @ + B(IsTrunc(r) /\ \E j \in 1..Len(r.m) : r.m[j] = 233 \/ CW(r.m[j]) = 2),
              !.wide = @ + B(IsWide(r)), !.wide_after_field = @ + B(r.kind = "wide2"), !.wide_second_line = @ + B(r.kind = "wide2l"), !.narrow_terminal = @ + B(~IsWide(r) /\ r.kind # "bar" /\ r.tw < r.w), !.wide_after_overflow = @ + B(r.kind = "wide2" /\ Cols(r.pm) > r.pw),
              !.bar_fields = @ + B(r.kind = "bar"), !.bar_fields_padded = @ + B(r.kind = "bar" /\ r.w % r.cw = 1),
              !.wide_trimmed = @ + B(IsWide(r) /\ r.suf = <<>> /\ r.panic = "" /\ Fits(r.m, r.w) /\ Len(r.out) < Len(r.pre) + Len(r.m) + (r.w - Cols(r.m))),
              !.big = @ + B(r.w >= 255),
              !.centre_odd = @ + B(r.al = "^" /\ Fits(r.m, r.w) /\ (r.w - Cols(r.m)) % 2 = 1)]

Init == /\ i = 1 /\ dead = TRUE /\ bad = <<>> /\ st = St0
        /\ TLCSet(1, <<>>) /\ TLCSet(2, St0) /\ TLCSet(3, 1)
Next ==
    /\ i <= Len(Rec)
    /\ \E r \in {Rec[i]} :
       IF r.op = "init" THEN /\ dead' = FALSE /\ bad' = bad /\ st' = [st EXCEPT !.recs = @ + 1, !.hists = @ + 1]
       ELSE IF dead THEN UNCHANGED <<dead, bad>> /\ st' = [st EXCEPT !.recs = @ + 1]
       ELSE \E rule \in {Rule(r)} :
            /\ dead' = (rule # "")
            /\ bad' = IF rule = "" THEN bad ELSE Append(bad, [h |-> r.h, i |-> r.i, rule |-> rule, op |-> r.kind])
            /\ st' = Count(st, r)
    /\ i' = i + 1
    /\ TLCSet(1, bad') /\ TLCSet(2, st') /\ TLCSet(3, i')
Spec == Init /\ [][Next]_vars
Post == PrintT(<<"VERDICTS", ToJson([consumed |-> TLCGet(3) - 1, total |-> Len(Rec), bad |-> TLCGet(1), st |-> TLCGet(2)])>>)
=============================================================================
