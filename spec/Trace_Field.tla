----------------------------- MODULE Trace_Field -----------------------------
(* MONITOR for C12: every record is one rendering of a template with a      *)
(* single msg / wide_msg placeholder between two literals on the real       *)
(* library (harness `field`); the painted line is judged against the        *)
(* contract Field!LineOK.                                                   *)
EXTENDS Field, Json, IOUtils
Rec == ndJsonDeserialize(IOEnv.TRACE)
VARIABLES i, dead, bad, st
vars == <<i, dead, bad, st>>
St0 == [recs |-> 0, hists |-> 0, fields |-> 0, fits |-> 0, overflow_kept |-> 0, trunc |-> 0, trunc_left |-> 0, trunc_centre |-> 0, trunc_right |-> 0,
        straddle |-> 0, zero_width |-> 0, multibyte_trunc |-> 0, wide |-> 0, wide_trimmed |-> 0, big |-> 0, centre_odd |-> 0]

IsTrunc(r) == ~Fits(r.m, r.w) /\ r.tr
(* the width of a wide_msg field is what the literals leave of the terminal width *)
WidthOK(r) == r.kind # "wide" \/ (r.w = WideWidth(r.tw, r.pre, r.suf) /\ r.tr)
Rule(r) ==
    IF r.panic # "" THEN "NoPanic"
    ELSE IF ~WidthOK(r) THEN "InputOK"
    ELSE IF r.tplerr # "" THEN "TemplateOK"
    ELSE IF r.nstr < 1 THEN "Painted"
    ELSE IF LineOK(r.out, r.pre, r.suf, r.m, r.w, r.al, r.tr, r.kind = "wide") THEN ""
    ELSE IF Fits(r.m, r.w) THEN "PadOK"
    ELSE IF ~r.tr THEN "OverflowKept"
    ELSE "TruncOK"

B(x) == IF x THEN 1 ELSE 0
Count(s, r) ==
    [s EXCEPT !.recs = @ + 1, !.fields = @ + 1,
              !.fits = @ + B(Fits(r.m, r.w)),
              !.overflow_kept = @ + B(~Fits(r.m, r.w) /\ ~r.tr),
              !.trunc = @ + B(IsTrunc(r)),
              !.trunc_left = @ + B(IsTrunc(r) /\ IsLeft(r.al)),
              !.trunc_centre = @ + B(IsTrunc(r) /\ r.al = "^"),
              !.trunc_right = @ + B(IsTrunc(r) /\ r.al = ">"),
              !.straddle = @ + B(IsTrunc(r) /\ \E lo \in Starts(Cols(r.m) - r.w, r.al) : HasStraddler(r.m, lo, lo + r.w)),
              !.zero_width = @ + B(IsTrunc(r) /\ HasZW(r.m)),
              !.multibyte_trunc = @ + B(IsTrunc(r) /\ \E j \in 1..Len(r.m) : r.m[j] = 233 \/ CW(r.m[j]) = 2),
              !.wide = @ + B(r.kind = "wide"),
              !.wide_trimmed = @ + B(r.kind = "wide" /\ r.suf = <<>> /\ r.panic = "" /\ Fits(r.m, r.w) /\ Len(r.out) < Len(r.pre) + Len(r.m) + (r.w - Cols(r.m))),
              !.big = @ + B(r.w >= 255),
              !.centre_odd = @ + B(r.al = "^" /\ Fits(r.m, r.w) /\ (r.w - Cols(r.m)) % 2 = 1)]

Init == /\ i = 1 /\ dead = TRUE /\ bad = <<>> /\ st = St0
        /\ TLCSet(1, <<>>) /\ TLCSet(2, St0) /\ TLCSet(3, 1)
Next ==
    /\ i <= Len(Rec)
    /\ \E r \in {Rec[i]} :
       IF r.op = "init" THEN /\ dead' = FALSE /\ bad' = bad /\ st' = [st EXCEPT !.recs = @ + 1, !.hists = @ + 1]
       ELSE IF dead THEN UNCHANGED <<dead, bad>> /\ st' = [st EXCEPT !.recs = @ + 1]
       ELSE \E rule \in {Rule(r)} :
            /\ dead' = (rule # "")
            /\ bad' = IF rule = "" THEN bad ELSE Append(bad, [h |-> r.h, i |-> r.i, rule |-> rule, op |-> r.kind])
            /\ st' = Count(st, r)
    /\ i' = i + 1
    /\ TLCSet(1, bad') /\ TLCSet(2, st') /\ TLCSet(3, i')
Spec == Init /\ [][Next]_vars
Post == PrintT(<<"VERDICTS", ToJson([consumed |-> TLCGet(3) - 1, total |-> Len(Rec), bad |-> TLCGet(1), st |-> TLCGet(2)])>>)
=============================================================================
