----------------------------- MODULE MC_Adaptors -----------------------------
(* Behaviour generator for C17.  Families (constant Fam):                     *)
(*  "script"  one call kind (each of the constant Kinds), every response script *)
(*            of length D over {Ok(0), Ok(k<n), Ok(n), Err, Interrupted|Pending} *)
(*  "io"      sync reader / writer / seeker: read, read_vectored, read_exact, *)
(*            read_to_end, read_to_string, write, write_vectored, write_all,  *)
(*            flush, seek in all modes (incl. huge offsets, before-start),    *)
(*            rewind, stream_position, each with short / failing scripts      *)
(*  "buf"     BufRead: fill_buf / consume(amt <= available) / read interleaved *)
(*  "aio"     tokio AsyncRead / AsyncWrite / AsyncBufRead / AsyncSeek polls    *)
(*  "iter"    Iterator / DoubleEndedIterator / ExactSizeIterator: next,        *)
(*            next_back, nth, drain, len, size_hint, refill (a non-fused       *)
(*            source that yields again after None), reset_bar (the caller's    *)
(*            ProgressBar::reset: a refilled source then finishes the bar      *)
(*            again, with the same finish behaviour), poke (the caller moves   *)
(*            the bar) - for every finish behaviour, known / unknown length    *)
(*  "stream"  futures Stream: poll_next with Pending, until exhaustion         *)
(*  "par"     rayon: every binary split tree of 1..N items (splits in id       *)
(*            order), then Mode "leaf": the leaves drained in every order,     *)
(*            "fine": every interleaving of single next() calls and            *)
(*            exhaustions, "free": splits at any time (for simulation);        *)
(*            on every path in Paths; each ends with one real pool run         *)
EXTENDS U64, Json, TLC, FiniteSets
CONSTANTS Fam, D, Kinds, N, Mode, Paths, Rich,
          Caps      \* rayon: how many items the base folder takes before it reports full() (0 = never full)
VARIABLES hist, n, avail, rem, ended, leaves, lastSplit, open, kind, done
vars == <<hist, n, avail, rem, ended, leaves, lastSplit, open, kind, done>>

Ok(k) == [r |-> "ok", k |-> k]
Er == [r |-> "err", k |-> 0]
In == [r |-> "intr", k |-> 0]
Pd == [r |-> "pend", k |-> 0]
P40 == <<0, 0, 1024, 0, 0>>                  \* 2^40
Behs == {"AndLeave", "Abandon", "AndClear", "WithMessage", "AbandonWithMessage"}
New(hl, len, p0, beh, items) == [op |-> "new", haslen |-> hl, len |-> len, pos0 |-> p0, beh |-> beh, fm |-> "fm", items |-> items]
IoNews == {New(TRUE, FromSmall(20), Zero, "AndLeave", 0)} \cup (IF Rich THEN {New(FALSE, Zero, Sub(MaxU64, <<1>>), "AndLeave", 0), New(TRUE, FromSmall(3), FromSmall(2), "AndClear", 0)} ELSE {})

Sync(k) == k \in {"read", "write", "read_vectored", "write_vectored"}
ScriptResps(k) == {<<Ok(0)>>, <<Ok(2)>>, <<Ok(4)>>, <<Er>>, IF Sync(k) THEN <<In>> ELSE <<Pd>>}
Vectored(k) == k \in {"read_vectored", "write_vectored", "poll_write_vectored"}
ScriptOps == { [op |-> kind, n |-> IF Vectored(kind) THEN 2 ELSE 4, n2 |-> IF Vectored(kind) THEN 2 ELSE 0, rs |-> rs] : rs \in ScriptResps(kind) }

Rd(nm, nn, n2, rs) == [op |-> nm, n |-> nn, n2 |-> n2, rs |-> rs]
SeekOp(mode, off, d, rs) == [op |-> "seek", mode |-> mode, off |-> off, d |-> d, rs |-> rs]
Seeks == {SeekOp("start", o, 0, <<>>) : o \in {Zero, FromSmall(3), P40, MaxU64}} \cup {SeekOp("cur", Zero, d, <<>>) : d \in {0 - 1, 0, 2}}
         \cup {SeekOp("end", Zero, d, <<>>) : d \in {0 - 3, 0, 4, 0 - 11}} \cup {SeekOp("start", FromSmall(3), 0, <<Er>>), SeekOp("cur", Zero, 2, <<Er>>), SeekOp("end", Zero, 0, <<Er>>)}
         \cup {[op |-> "rewind", rs |-> <<>>], [op |-> "rewind", rs |-> <<Er>>], [op |-> "stream_position", rs |-> <<>>]}
         \cup {[op |-> "seek_relative", d |-> d, rs |-> rs] : d \in {0 - 1, 2}, rs \in {<<>>, <<Er>>}}
IoOps == {Rd("read", 4, 0, rs) : rs \in {<<Ok(0)>>, <<Ok(2)>>, <<Ok(4)>>, <<Er>>, <<In>>}} \cup {Rd("read", 0, 0, <<Ok(4)>>)}
         \cup {Rd("read_vectored", 2, 2, rs) : rs \in {<<Ok(0)>>, <<Ok(1)>>, <<Ok(3)>>, <<Ok(4)>>, <<Er>>}}
         \cup {Rd("read_exact", 4, 0, rs) : rs \in {<<Ok(4)>>, <<Ok(2), Ok(2)>>, <<Ok(2), Er>>, <<Ok(2), Ok(0)>>, <<In, Ok(4)>>, <<Er>>, <<Ok(0)>>, <<Ok(1), In, Ok(3)>>}}
         \cup {Rd("read_to_end", 0, 0, rs) : rs \in {<<Ok(3), Ok(2), Ok(0)>>, <<Ok(3), Er>>, <<Ok(0)>>, <<Ok(5), In, Ok(0)>>}}
         \cup {Rd("read_to_string", 0, 0, rs) : rs \in {<<Ok(3), Ok(0)>>, <<Ok(3), Er>>}}
         \cup {Rd("write", 4, 0, rs) : rs \in {<<Ok(0)>>, <<Ok(2)>>, <<Ok(4)>>, <<Er>>, <<In>>}}
         \cup {Rd("write_vectored", 2, 2, rs) : rs \in {<<Ok(0)>>, <<Ok(1)>>, <<Ok(3)>>, <<Ok(4)>>, <<Er>>}}
         \cup {Rd("write_all", 4, 0, rs) : rs \in {<<Ok(4)>>, <<Ok(2), Ok(2)>>, <<Ok(2), Er>>, <<Ok(0)>>, <<In, Ok(4)>>, <<Ok(1), Ok(0)>>}}
         \cup {Rd("flush", 0, 0, rs) : rs \in {<<>>, <<Er>>}}
         \cup Seeks

Fill(nm) == {[op |-> nm, rs |-> rs] : rs \in {<<Ok(0)>>, <<Ok(3)>>, <<Ok(5)>>, <<Er>>} \cup (IF nm = "fill_buf" THEN {<<In>>} ELSE {<<Pd>>})}
Consume(nm) == {[op |-> nm, amt |-> a] : a \in {0, 1, avail}}
BufOps == Fill("fill_buf") \cup Consume("consume") \cup {Rd("read", 4, 0, rs) : rs \in {<<Ok(2)>>, <<Er>>}}
AioOps == Fill("poll_fill_buf") \cup Consume("aconsume")
          \cup {Rd("poll_read", 4, 0, rs) : rs \in {<<Ok(2)>>, <<Pd>>, <<Er>>}} \cup {Rd("poll_write", 4, 0, rs) : rs \in {<<Ok(2)>>, <<Pd>>, <<Er>>}}
          \cup {Rd("poll_write_vectored", 2, 2, <<Ok(3)>>)}
          \cup {Rd(nm, 0, 0, rs) : nm \in {"poll_flush", "poll_shutdown"}, rs \in {<<>>, <<Pd>>, <<Er>>}}
          \cup {[op |-> "start_seek", mode |-> "start", off |-> o, d |-> 0, rs |-> <<>>] : o \in {FromSmall(3), MaxU64}}
          \cup {[op |-> "start_seek", mode |-> "cur", off |-> Zero, d |-> 2, rs |-> <<>>], [op |-> "start_seek", mode |-> "end", off |-> Zero, d |-> 0 - 3, rs |-> <<>>],
                [op |-> "start_seek", mode |-> "end", off |-> Zero, d |-> 0 - 11, rs |-> <<>>], [op |-> "start_seek", mode |-> "start", off |-> Zero, d |-> 0, rs |-> <<Er>>]}
          \cup {[op |-> "poll_complete", rs |-> rs] : rs \in {<<>>, <<Pd>>, <<Er>>}}
AvailAfter(o) == IF o.op \in {"fill_buf", "poll_fill_buf"} THEN (IF o.rs[1].r = "ok" /\ avail = 0 THEN o.rs[1].k ELSE avail)
                 ELSE IF o.op \in {"consume", "aconsume"} THEN avail - o.amt ELSE avail

IterNews == {New(hl, IF hl THEN FromSmall(items + 1) ELSE Zero, Zero, b, items) : hl \in BOOLEAN, b \in Behs, items \in (IF Rich THEN {0, 1, 2} ELSE {0, 2})}
IterOps == {[op |-> "next"], [op |-> "next_back"], [op |-> "nth", k |-> 1], [op |-> "drain"], [op |-> "len"], [op |-> "size_hint"], [op |-> "refill", k |-> 1], [op |-> "poke"], [op |-> "reset_bar"]}
StreamOps == {[op |-> "poll_next", rs |-> <<>>], [op |-> "poll_next", rs |-> <<Pd>>], [op |-> "poke"], [op |-> "refill", k |-> 1], [op |-> "reset_bar"]}
(* items remaining after an iterator operation (used to stop polling an exhausted stream) *)
RemAfter(o) == CASE o.op \in {"next", "next_back"} -> IF rem > 0 THEN rem - 1 ELSE 0
                 [] o.op = "poll_next" -> IF o.rs = <<>> /\ rem > 0 THEN rem - 1 ELSE rem
                 [] o.op = "nth" -> IF rem > o.k + 1 THEN rem - o.k - 1 ELSE 0
                 [] o.op = "drain" -> 0
                 [] o.op = "refill" -> rem + o.k
                 [] OTHER -> rem

(* ---- rayon ---- *)
ParNews == {[op |-> "par_new", n |-> k, haslen |-> hl, len |-> IF hl THEN FromSmall(k) ELSE Zero, pos0 |-> Zero, beh |-> b, fm |-> "fm", path |-> p, cap |-> cp]
              : k \in 1..N, hl \in (IF Rich THEN BOOLEAN ELSE {TRUE}), b \in (IF Rich THEN {"AndLeave", "Abandon"} ELSE {"AndLeave"}), p \in Paths,
                cp \in Caps}
Cap == hist[1].cap
LeafFull(l) == Cap > 0 /\ l.base >= Cap
Size(l) == l.hi - l.lo
Rev == hist[1].path = "producer_rev"
Adaptor == CASE hist[1].path = "consumer" -> "plain" [] hist[1].path = "unindexed" -> "filter" [] hist[1].path = "producer_rev" -> "rev" [] OTHER -> "zip"
ParSplit == \E id \in DOMAIN leaves : \E at \in 1..(Size(leaves[id]) - 1) :
              /\ leaves[id].st = "fresh" /\ (Mode = "free" \/ (id > lastSplit /\ open = 0 /\ \A j \in DOMAIN leaves : leaves[j].st = "fresh"))
              /\ LET l == leaves[id] IN
                 leaves' = [j \in (DOMAIN leaves \ {id}) \cup {2 * id, 2 * id + 1} |->
                              IF j = 2 * id THEN [lo |-> l.lo, hi |-> l.lo + at, taken |-> 0, st |-> "fresh", base |-> 0]
                              ELSE IF j = 2 * id + 1 THEN [lo |-> l.lo + at, hi |-> l.hi, taken |-> 0, st |-> "fresh", base |-> 0] ELSE leaves[j]]
              /\ hist' = Append(hist, [op |-> "split", node |-> id, at |-> at]) /\ lastSplit' = id /\ UNCHANGED open
ParItem == \E id \in DOMAIN leaves :
              /\ leaves[id].taken < Size(leaves[id]) /\ (Mode # "leaf" \/ open \in {0, id}) /\ ~LeafFull(leaves[id])
              /\ LET l == leaves[id] IN
                 /\ hist' = Append(hist, [op |-> "item", node |-> id, want |-> IF Rev THEN l.hi - 1 - l.taken ELSE l.lo + l.taken])
                 /\ leaves' = [leaves EXCEPT ![id].taken = @ + 1, ![id].st = "open", ![id].base = @ + 1]
              /\ open' = id /\ UNCHANGED lastSplit
(* Folder::consume_iter: k items handed over at once; a base folder that becomes full() takes only a prefix, the rest is never produced *)
ParItems == \E id \in DOMAIN leaves : \E k \in 2..(Size(leaves[id]) - leaves[id].taken) :
              /\ hist[1].path \in {"consumer", "unindexed"} /\ (Mode # "leaf" \/ open \in {0, id}) /\ ~LeafFull(leaves[id])
              /\ LET l == leaves[id]
                     got == IF Cap > 0 /\ l.base + k > Cap THEN Cap - l.base ELSE k
                 IN /\ hist' = Append(hist, [op |-> "items", node |-> id, want |-> l.lo + l.taken, k |-> k, expect |-> got])
                    /\ leaves' = [leaves EXCEPT ![id].taken = IF got < k THEN Size(l) ELSE @ + k, ![id].st = "open", ![id].base = @ + got]
              /\ open' = id /\ UNCHANGED lastSplit
ParEnd == \E id \in DOMAIN leaves :
              /\ (leaves[id].taken = Size(leaves[id]) \/ LeafFull(leaves[id])) /\ leaves[id].st = "open"
              /\ hist' = Append(hist, [op |-> "end", node |-> id]) /\ leaves' = [leaves EXCEPT ![id].st = "ended"]
              /\ open' = 0 /\ UNCHANGED lastSplit
ParComplete == \A id \in DOMAIN leaves : leaves[id].st = "ended"

News == CASE Fam \in {"script", "io", "buf", "aio"} -> IoNews [] Fam \in {"iter", "stream"} -> IterNews [] OTHER -> ParNews
Alphabet == CASE Fam = "script" -> ScriptOps [] Fam = "io" -> IoOps [] Fam = "buf" -> BufOps [] Fam = "aio" -> AioOps [] Fam = "iter" -> IterOps [] OTHER -> StreamOps

Init == /\ \E o \in News : hist = <<o>> /\ rem = (IF Fam \in {"iter", "stream"} THEN o.items ELSE 0)
                           /\ leaves = (IF Fam = "par" THEN (1 :> [lo |-> 0, hi |-> o.n, taken |-> 0, st |-> "fresh", base |-> 0]) ELSE <<>>)
        /\ kind \in (IF Fam = "script" THEN Kinds ELSE {""})
        /\ n = 0 /\ avail = 0 /\ ended = FALSE /\ lastSplit = 0 /\ open = 0 /\ done = FALSE
SeqStep == /\ Fam # "par" /\ n < D /\ ~ended
           /\ \E o \in Alphabet :
                /\ (o.op \in {"consume", "aconsume"} => o.amt <= avail)
                /\ hist' = Append(hist, o) /\ avail' = AvailAfter(o) /\ rem' = RemAfter(o)
                /\ ended' = (Fam = "stream" /\ o.op = "poll_next" /\ o.rs = <<>> /\ rem = 0)      \* a stream is not polled again after None
           /\ n' = n + 1 /\ UNCHANGED <<leaves, lastSplit, open, kind, done>>
ParStepA == /\ Fam = "par" /\ (ParSplit \/ ParItem \/ ParItems \/ ParEnd)
            /\ n' = n + 1 /\ UNCHANGED <<avail, rem, ended, kind, done>>
Finished == IF Fam = "par" THEN ParComplete ELSE (n = D \/ ended)
Ending == IF Fam = "par" THEN <<[op |-> "done"], [op |-> "pool", n |-> hist[1].n, haslen |-> hist[1].haslen, len |-> hist[1].len, pos0 |-> Zero, beh |-> hist[1].beh, fm |-> "fm",
                                adaptor |-> Adaptor, threads |-> 3]>> ELSE <<>>
Emit == /\ Finished /\ ~done
        /\ PrintT(<<"REPLAY", ToJson([fam |-> IF Fam = "script" THEN (IF Sync(kind) THEN "io" ELSE "aio") ELSE Fam, ops |-> hist \o Ending])>>)
        /\ done' = TRUE /\ UNCHANGED <<hist, n, avail, rem, ended, leaves, lastSplit, open, kind>>
Next == SeqStep \/ ParStepA \/ Emit
Spec == Init /\ [][Next]_vars
TypeOK == avail >= 0 /\ rem >= 0
=============================================================================
