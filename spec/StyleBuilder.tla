---------------------------- MODULE StyleBuilder ----------------------------
(***************************************************************************)
(* CONTRACT for property C14: every style the builder accepts can be      *)
(* rendered without panicking; configurations that cannot be rendered are  *)
(* rejected with an explicit panic when the style is BUILT.                *)
(*                                                                         *)
(* A builder call is a record [op, ...arguments].  Text arguments are      *)
(* sequences of TOKENS; a token is one grapheme cluster from a fixed       *)
(* alphabet whose number of characters and column width are given here     *)
(* (the driver harness/src/stylebuild.rs maps the same numbers to the      *)
(* same strings):                                                          *)
(*    1 '#'   2 '>'   3 '-'      one character, one column                 *)
(*    4 U+4E16  7 U+754C         one character, two columns                *)
(*    5 U+200B (zero width space) one character, zero columns              *)
(*    6 'e' U+0301               two characters, ONE cluster, one column   *)
(*                                                                         *)
(* What the property (and the documentation of the three setters) says:    *)
(*    tick_chars(s)      needs at least two characters                     *)
(*    tick_strings(v)    needs at least two strings                        *)
(*    progress_chars(s)  needs at least two clusters, all of equal width   *)
(*    with_key, with_template/template of a well-formed template: always   *)
(*    fine.                                                                *)
(* Where the text leaves freedom the outcome is "Either":                  *)
(*    - progress clusters that are all ZERO columns wide (a bar cannot be  *)
(*      made of them; rejecting them or rendering nothing are both fine -  *)
(*      but a style that was accepted must still render without panic);    *)
(*    - tick or progress strings in which characters and clusters differ   *)
(*      (whether "characters" are chars or grapheme clusters depends on    *)
(*      the crate features; the counts and widths then differ).            *)
(***************************************************************************)
EXTENDS Naturals, Sequences

TokChars(t) == IF t = 6 THEN 2 ELSE 1
TokWidth(t) == IF t \in {4, 7} THEN 2 ELSE IF t = 5 THEN 0 ELSE 1

RECURSIVE SumChars(_, _)
SumChars(a, i) == IF i > Len(a) THEN 0 ELSE TokChars(a[i]) + SumChars(a, i + 1)
NChars(a) == SumChars(a, 1)
NClusters(a) == Len(a)
EqualWidth(a) == \A i \in 1..Len(a) : TokWidth(a[i]) = TokWidth(a[1])
AllZero(a) == \A i \in 1..Len(a) : TokWidth(a[i]) = 0

BuilderOps == {"with_template", "template", "tick_chars", "tick_strings", "progress_chars", "with_key"}

(* templates are named; "bad" is the one malformed template (an Err, never a panic, is expected) *)
TplWellFormed(name) == name # "bad"

(* What the contract expects of one builder call: "Built", "RejectedAtBuild", "Err" or "Either". *)
Expect(c) ==
    CASE c.op = "tick_chars"     -> IF NChars(c.arg) < 2 THEN "RejectedAtBuild"
                                    ELSE IF NClusters(c.arg) < 2 THEN "Either"             \* two characters, one cluster
                                    ELSE "Built"
      [] c.op = "tick_strings"   -> IF Len(c.args) >= 2 THEN "Built" ELSE "RejectedAtBuild"
      [] c.op = "progress_chars" -> IF NChars(c.arg) < 2 THEN "RejectedAtBuild"
                                    ELSE IF NClusters(c.arg) # NChars(c.arg) THEN "Either"  \* characters or clusters: depends on the crate features
                                    ELSE IF ~EqualWidth(c.arg) THEN "RejectedAtBuild"
                                    ELSE IF AllZero(c.arg) THEN "Either"
                                    ELSE "Built"
      [] c.op \in {"with_template", "template"} -> IF TplWellFormed(c.tpl) THEN "Built" ELSE "Err"
      [] OTHER -> "Built"

(* number of tick strings the style has after call c (n before), when it was built *)
TicksAfter(n, c) ==
    CASE c.op = "tick_chars"   -> NChars(c.arg)
      [] c.op = "tick_strings" -> Len(c.args)
      [] OTHER -> n
DefaultTicks == 30

(* Verdict on the observed outcome res \in {"ok", "err", "panic"} of a builder call. *)
BuildRule(c, res) ==
    LET e == Expect(c) IN
    IF e = "Built" /\ res # "ok" THEN "RejectsValid"
    ELSE IF e = "RejectedAtBuild" /\ res # "panic" THEN "AcceptsInvalid"
    ELSE IF e = "Err" /\ res = "panic" THEN "BuildNoPanic"
    ELSE ""

(* Operations performed with a built style; none of them may panic. *)
DrawOps == {"bar", "force_draw", "ticks", "set_position", "finish", "steady", "slow"}
UseRule(op, res) ==
    IF res # "panic" THEN ""
    ELSE IF op \in DrawOps THEN "DrawNoPanic"
    ELSE IF op = "later" THEN "LaterNoPanic"
    ELSE "TickStrNoPanic"
=============================================================================
