----------------------------- MODULE MC_Linear -----------------------------
(***************************************************************************)
(* Generator for the final-state clause: TLC enumerates small concurrent   *)
(* programs - thread 0 performs one or two calls, thread 1 one call (or two *)
(* when Two1), all drawn from the alphabets below - and for each program    *)
(* the preemption-bounded schedules "k steps of one thread, j steps of the  *)
(* other, then the first thread to its end, then the rest" for all k, j up  *)
(* to K (at most two forced context switches, at every pair of points of    *)
(* the two threads' instrumented steps).                                    *)
(***************************************************************************)
EXTENDS Naturals, Sequences, FiniteSets, TLC, Json
CONSTANTS Family,    \* which alphabet (see Alpha)
          K,         \* schedule prefix lengths 0..K
          Two1       \* thread 1 may perform two calls
VARIABLES prog, done
vars == <<prog, done>>

TAB == 9
(* one record shape for every call (TLC compares the elements of a set) *)
O(name, b, m, n, tpl) == [op |-> name, b |-> b, m |-> m, n |-> n, tpl |-> tpl]
Op(name, b) == O(name, b, <<>>, 0, "")
OpM(name, b, m) == O(name, b, m, 0, "")
OpN(name, b, n) == O(name, b, <<>>, n, "")

New(b, tpl, m0, p0) == [op |-> "new", b |-> b, tpl |-> tpl, fin |-> "AndLeave", len |-> 3, fm |-> <<70>>, m0 |-> m0, p0 |-> p0, pos0 |-> 0, tabw |-> 8,
                        tabw_first |-> FALSE, mfirst |-> FALSE, target |-> "spy", hz |-> 0, idx |-> 0, b2 |-> 0, dt |-> 0]
Add(b, tpl, m0) == [New(b, tpl, m0, <<>>) EXCEPT !.op = "add"]

(* per family: multi?, terminal size, creation operations, alphabet of thread 0, alphabet of thread 1 *)
Alpha ==
    CASE Family = "single" ->
            [multi |-> FALSE, w |-> 8, h |-> 12, news |-> <<New(1, "MnC", <<109>>, <<>>)>>,
             a0 |-> {OpM("suspend", 1, <<83, 10, 84>>), OpM("println", 1, <<76>>), OpM("set_message", 1, <<120, 121>>), Op("finish", 1), Op("finish_and_clear", 1), Op("reset", 1)},
             a1 |-> {Op("tick", 1), OpN("inc", 1, 1), OpM("println", 1, <<80>>), OpM("set_message", 1, <<122>>), OpM("suspend", 1, <<85>>), OpM("finish_with_message", 1, <<100>>)}]
      (* one caller and the steady-tick thread (scheduler id 100): its ticks are redraw requests that may come between any two steps of a call *)
      [] Family = "single_ticker" ->
            [multi |-> FALSE, w |-> 8, h |-> 12, news |-> <<New(1, "MnC", <<109>>, <<>>)>>,
             a0 |-> {OpM("suspend", 1, <<83, 10, 84>>), OpM("println", 1, <<76>>), OpM("set_message", 1, <<120, 121>>), Op("finish", 1), Op("finish_and_clear", 1), Op("reset", 1)},        \* no inc / tick: with a ticker installed they leave the repaint to the ticker
             a1 |-> {}]
      (* ... and the same for a MultiProgress: the ticker belongs to member 1, the caller works through member 2 and the MultiProgress *)
      [] Family = "multi_ticker" ->
            [multi |-> TRUE, w |-> 8, h |-> 14, news |-> <<Add(1, "MnC", <<97>>), Add(2, "M", <<98>>)>>,
             a0 |-> {OpM("mp_suspend", 0, <<83, 10, 86>>), OpM("suspend", 2, <<84>>), OpM("mp_println", 0, <<76>>), OpM("println", 2, <<77>>), OpM("set_message", 2, <<120>>), Op("finish", 2), Op("finish_and_clear", 2)},
             a1 |-> {}]
      [] Family = "tabs" ->
            [multi |-> FALSE, w |-> 30, h |-> 6, news |-> <<New(1, "PM", <<97, TAB, 98>>, <<112, TAB>>)>>,
             a0 |-> {OpM("set_message", 1, <<120, TAB, 121>>), OpM("set_prefix", 1, <<113, TAB>>), OpM("finish_with_message", 1, <<102, TAB>>), O("set_style", 1, <<>>, 0, "TM")},
             a1 |-> {OpN("set_tab_width", 1, 2), OpN("set_tab_width", 1, 0), OpM("set_message", 1, <<TAB, 122>>)}]
      [] Family = "multi" ->
            [multi |-> TRUE, w |-> 8, h |-> 14, news |-> <<Add(1, "MnC", <<97>>), Add(2, "M", <<98>>)>>,
             a0 |-> {OpM("mp_suspend", 0, <<83, 10, 86>>), OpM("suspend", 1, <<84>>), OpM("mp_println", 0, <<76>>), OpM("println", 2, <<77>>), OpM("set_message", 1, <<120>>), Op("finish", 1), Op("finish_and_clear", 1)},
             a1 |-> {Op("tick", 2), OpN("inc", 1, 1), OpM("set_message", 2, <<122>>), OpM("println", 1, <<80>>), OpM("mp_println", 0, <<81>>), Op("finish", 2), OpM("suspend", 2, <<85>>)}]

A == Alpha
Seqs1(S) == { <<x>> : x \in S }
Seqs2(S) == { <<x, y>> : x \in S, y \in S }
Ticker == Family \in {"single_ticker", "multi_ticker"}
(* with a ticker: the caller's calls, then disable_steady_tick (which stops and joins the thread); the other "thread" of the schedules is the ticker *)
Progs == IF Ticker THEN { <<t0 \o <<Op("disable", 1)>>, <<>>>> : t0 \in Seqs1(A.a0) \cup Seqs2(A.a0) }
         ELSE { <<t0, t1>> : t0 \in Seqs1(A.a0) \cup Seqs2(A.a0), t1 \in Seqs1(A.a1) \cup (IF Two1 THEN Seqs2(A.a1) ELSE {}) }

Rep(x, n) == [j \in 1..n |-> x]
Scheds == IF Ticker THEN { Rep(0, k) \o Rep(100, j) \o Rep(0, i) \o Rep(100, 2) \o Rep(0, 40) : k \in 0..(K + 4), j \in 1..3, i \in {0, 2} }
          ELSE { Rep(f, k) \o Rep(1 - f, j) \o Rep(f, 40) : f \in {0, 1}, k \in 0..K, j \in 1..K }

Init == prog = <<>> /\ done = FALSE
Pick == prog = <<>> /\ \E p \in Progs : prog' = p /\ UNCHANGED done
Emit == /\ prog # <<>> /\ ~done
        /\ \A s \in Scheds :
              PrintT(<<"REPLAY", ToJson([lin |-> TRUE, program |-> Family, setup |-> [multi |-> A.multi, w |-> A.w, h |-> A.h, news |-> A.news, ticker |-> IF Ticker THEN <<1>> ELSE <<>>],
                                        threads |-> prog, schedule |-> s])>>)
        /\ done' = TRUE /\ UNCHANGED prog
Next == Pick \/ Emit
Spec == Init /\ [][Next]_vars
TypeOK == done \in BOOLEAN
=============================================================================
