------------------------------ MODULE Limiter ------------------------------
(***************************************************************************)
(* IMPLEMENTATION-SHAPED model of the two token buckets                    *)
(* (RateLimiter::allow in draw_target.rs, AtomicPosition::allow in         *)
(* state.rs), in abstract time units: interval I, burst B.                 *)
(*    deny  iff  capacity = 0 /\ elapsed < I                               *)
(*    allow:     new = elapsed div I, rem = elapsed mod I,                 *)
(*               capacity' = min(B, capacity + new - 1), prev' = now - rem *)
(*               (rem := 0 when capacity + new - 1 >= B: a full bucket      *)
(*               banks no time.  TLC found the counterexample to Window on  *)
(*               the algorithm without this rule: gaps <<I+1, 0, 0, I-1, 0>> *)
(*               with B = 3 paint 5 frames in a window of I-1; the code was *)
(*               repaired accordingly, see known_findings.json D21.)        *)
(* Checked against the interval form of the throttling laws (C05):         *)
(*    Window  leaky counter G' = max(G - gap, 0) + I at every allowed      *)
(*            request never exceeds (B + 1) * I                            *)
(*            ( <=> in every window of length T at most B + T/I + 1 )      *)
(*    Fresh   a request at least I after the last allowed one is allowed   *)
(* Forced draws (finish, println, the draw of a bar finished by its drop)  *)
(* bypass the bucket: they neither take a token nor move `prev`, and they  *)
(* are not counted by the laws.  With Churn = TRUE the model takes such    *)
(* steps between requests; zh says that a forced draw came since the last  *)
(* request (in a MultiProgress: a finished member waits at the head of the *)
(* list to be released by the next draw), so that the generated cover has  *)
(* a request in every bucket state right after one.  In hist a forced step *)
(* after gap g is the negative number -(g + 1).                            *)
(* The Emit action prints the behaviours (gap sequences) for replay.       *)
(***************************************************************************)
EXTENDS Integers, Sequences, TLC, Json
CONSTANTS I, B, Gaps, D, Churn
VARIABLES cap, since,      \* capacity; time since `prev`
          G, sinceAllow,   \* leaky counter (scaled by I); time since the last allowed request (-1: none yet)
          lastAllowed, hist, done, zh
vars == <<cap, since, G, sinceAllow, lastAllowed, hist, done, zh>>

Min(a, b) == IF a <= b THEN a ELSE b
Max(a, b) == IF a >= b THEN a ELSE b
Clip(x) == Min(x, (B + 3) * I)          \* times beyond this are all alike (keeps the state space finite)

Init == cap = B /\ since = 0 /\ G = 0 /\ sinceAllow = -1 /\ lastAllowed = TRUE /\ hist = <<>> /\ done = FALSE /\ zh = FALSE

Request(gap) ==
    LET elapsed == since + gap
        deny == cap = 0 /\ elapsed < I
        sa == IF sinceAllow = -1 THEN -1 ELSE Clip(sinceAllow + gap)
    IN /\ lastAllowed' = ~deny
       /\ IF deny
          THEN /\ cap' = cap /\ since' = Clip(elapsed) /\ G' = G /\ sinceAllow' = sa
          ELSE /\ cap' = Min(B, cap + (elapsed \div I) - 1)
               /\ since' = IF cap + (elapsed \div I) - 1 >= B THEN 0 ELSE elapsed % I     \* a full bucket banks no time
               /\ G' = Max(G - (IF sinceAllow = -1 THEN 0 ELSE sinceAllow + gap), 0) + I
               /\ sinceAllow' = 0
       /\ hist' = Append(hist, gap)
       /\ zh' = FALSE

(* a forced draw: time passes, the bucket and the counted frames are untouched *)
Forced(gap) ==
    /\ Churn /\ ~zh
    /\ since' = Clip(since + gap)
    /\ sinceAllow' = IF sinceAllow = -1 THEN -1 ELSE Clip(sinceAllow + gap)
    /\ zh' = TRUE
    /\ hist' = Append(hist, -(gap + 1))
    /\ UNCHANGED <<cap, G, lastAllowed>>

Step == Len(hist) < D /\ (\E g \in Gaps : Request(g) \/ Forced(g)) /\ UNCHANGED done
Emit == /\ ~done /\ Len(hist) > 0
        /\ PrintT(<<"REPLAY", ToJson([gaps |-> hist])>>)
        /\ done' = TRUE /\ UNCHANGED <<cap, since, G, sinceAllow, lastAllowed, hist, zh>>
Next == Step \/ Emit
Spec == Init /\ [][Next]_vars

(* exhaustive view for the invariants (small B) *)
View == <<cap, since, G, sinceAllow, lastAllowed, done, zh>>
(* generation view (real B): one shortest history per reachable (bucket state, decision) *)
ViewImpl == <<cap, since, IF sinceAllow >= I THEN I ELSE sinceAllow, lastAllowed, done, zh>>

TypeOK == cap \in 0..B /\ since >= 0
WindowI == G <= (B + 1) * I
FreshI == (~zh /\ sinceAllow >= I) => FALSE          \* a request that came >= I after the last allowed one was itself allowed, so sinceAllow was reset
CapOK == cap <= B
=============================================================================
