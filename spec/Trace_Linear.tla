---------------------------- MODULE Trace_Linear ----------------------------
(***************************************************************************)
(* MONITOR for the final-state clause (Linear.tla): one record per run of  *)
(* a small multi-threaded program on the real library under the controlled *)
(* scheduler (harness `sync`, programs with "lin": true).  The record holds *)
(* the creation operations, the threads' calls, every terminal call in the  *)
(* order the terminal received it and the getters of every bar after the    *)
(* last thread has finished.  Verdict rules:                                *)
(*   Completed     every thread returned (no deadlock / hang)               *)
(*   NoPanic       no call panicked, no lock is poisoned                    *)
(*   FinalGetOK    the getters are those of some sequential order           *)
(*   FinalScreenOK ... and the terminal is that order's screen              *)
(***************************************************************************)
EXTENDS Linear, Json, IOUtils
Rec == ndJsonDeserialize(IOEnv.TRACE)
VARIABLES i, bad, st
vars == <<i, bad, st>>
St0 == [runs |-> 0, orders |-> 0, ambiguous |-> 0, switched |-> 0, logs |-> 0, paints |-> 0]

InitState(r) == SeqRun(SInit(r.cfg.w, r.cfg.h, r.cfg.multi, FALSE, "top"), r.news, 1)

Judge(r) ==
    LET S0 == InitState(r)
        T == Calls(TInit(r.cfg.w, r.cfg.h), r.calls)
        (* the steady-tick thread, if it ticked at all, is one more caller: a tick of its bar (further ticks repaint the same thing) *)
        ths == IF r.tbar > 0 /\ r.tticks > 0 THEN Append(r.threads, <<[op |-> "tick", b |-> r.tbar]>>) ELSE r.threads
        fs == Finals(S0, ths)
        okGet == {S \in fs : GettersOK(S, r.gets)}
        okAll == {S \in okGet : AllRows(T) = FinalRows(S)}
        one == CHOOSE S \in fs : TRUE
    IN [rule |-> IF r.result # "ok" THEN "Completed"
                 ELSE IF r.callpanics > 0 \/ r.tpanics > 0 THEN "NoPanic"
                 ELSE IF okGet = {} THEN "FinalGetOK"
                 ELSE IF okAll = {} THEN "FinalScreenOK"
                 ELSE "",
        exp |-> AboveLines(one, one.above) \o <<<<45, 45>>>> \o ShownLines(one, one.order),
        norders |-> Cardinality(fs),
        amb |-> Cardinality({FinalRows(S) : S \in fs}) > 1,
        logs |-> \E S \in fs : Len(S.above) > 0]

Init == i = 1 /\ bad = <<>> /\ st = St0 /\ TLCSet(1, <<>>) /\ TLCSet(2, St0) /\ TLCSet(3, 1)
Next ==
    /\ i <= Len(Rec)
    /\ LET r == Rec[i] IN
       \E x \in {Judge(r)} :
       /\ bad' = IF x.rule = "" THEN bad ELSE Append(bad, [h |-> r.h, i |-> 1, rule |-> x.rule, op |-> r.result, exp |-> x.exp])
       /\ st' = [st EXCEPT !.runs = @ + 1, !.orders = @ + x.norders, !.ambiguous = @ + (IF x.amb THEN 1 ELSE 0),
                           !.switched = @ + (IF r.switches > 0 THEN 1 ELSE 0), !.logs = @ + (IF x.logs THEN 1 ELSE 0),
                           !.paints = @ + r.flushes]
    /\ i' = i + 1
    /\ TLCSet(1, bad') /\ TLCSet(2, st') /\ TLCSet(3, i')
Spec == Init /\ [][Next]_vars
Post == PrintT(<<"VERDICTS", ToJson([consumed |-> TLCGet(3) - 1, total |-> Len(Rec), bad |-> TLCGet(1), st |-> TLCGet(2)])>>)
=============================================================================
