-------------------------------- MODULE Sync --------------------------------
(***************************************************************************)
(* IMPLEMENTATION-SHAPED model of the lock protocol of ProgressBar /       *)
(* MultiProgress (property C08): the four lock classes                     *)
(*    S  bar state mutex          K  ticker slot mutex                     *)
(*    M  MultiState RwLock        F  stop flag mutex + condvar of a ticker *)
(* threads, spawn, join, the condition variable with time-out, and who     *)
(* runs BarState::drop (the last strong reference, which may be the        *)
(* ticker's temporary upgrade).  Every public call is a sequence of        *)
(* tokens; a step of a thread is one PARKING token (lock acquisition,      *)
(* notify, spawn, start, join, wait) followed by the non-parking tokens up *)
(* to the next parking one - the granularity at which the controlled       *)
(* scheduler of the harness interleaves the real code.                     *)
(*                                                                         *)
(* UpdateOrder = "SK" is the lock order of ProgressBar::update before the  *)
(* repair (state, then ticker slot): TLC finds the three-party deadlock    *)
(* (MC_Sync_D5.cfg).  "KS" is the repaired order.                          *)
(*                                                                         *)
(* Checked: no deadlock (a state with an unfinished caller and no enabled  *)
(* step), NoTimeoutDependence (never is a time-out the only way forward    *)
(* for a caller), lifecycle invariants; and every reachable state's        *)
(* shortest schedule is printed for replay on the real code.               *)
(***************************************************************************)
EXTENDS Integers, Sequences, FiniteSets, TLC, Json

CONSTANTS Programs,      \* sequence (one per caller) of sequences of call names
          Multi,         \* bar lives in a MultiProgress
          InitTicker,    \* caller 1 first enables a steady ticker
          UpdateOrder,   \* "SK" | "KS"
          MaxTickers

Callers == 1..Len(Programs)
Tickers == 1..MaxTickers
TId(t) == 100 + t - 1                     \* thread ids used in schedules: callers 0.., tickers 100..

VARIABLES G, hist, done
vars == <<G, hist, done>>

Tok(k) == [k |-> k, t |-> 0, n |-> ""]
TokT(k, t) == [k |-> k, t |-> t, n |-> ""]
Call(name) == [k |-> "CALL", t |-> 0, n |-> name]
Parking == {"BEGIN", "LK", "LS", "LN", "WM", "RM", "LF", "NOTIFY", "JOIN", "SPAWN", "START", "WAIT"}

(* a draw goes through the MultiState lock while the bar is a member: decided when the draw is reached, under the bar state lock *)
Draw == <<Tok("DRAW")>>
StopSeq(t) == <<TokT("LF", t), TokT("SETSTOP", t), TokT("UF", t), TokT("NOTIFY", t)>>

CallTokens(name) ==
    CASE name = "tick"    -> <<Tok("LK"), Tok("RS"), Tok("UK"), Tok("IFNONE_TICK")>>
      [] name = "update"  -> IF UpdateOrder = "KS"
                             THEN <<Tok("LK"), Tok("RS"), Tok("UK"), Tok("LS"), Tok("DRAW_IFNONE"), Tok("US")>>
                             ELSE <<Tok("LS"), Tok("LK"), Tok("RS"), Tok("DRAW_IFNONE"), Tok("UK"), Tok("US")>>
      [] name = "finish"  -> <<Tok("LS"), Tok("SETFIN")>> \o Draw \o <<Tok("US")>>
      [] name = "println" -> <<Tok("LS"), Tok("WIDTH")>> \o Draw \o <<Tok("US")>>       \* BarState::println asks the target for its width first (read lock)
      [] name = "disable" -> <<Tok("LK"), Tok("STOPJOIN"), Tok("CLEARSLOT"), Tok("UK")>>
      [] name \in {"enable", "enable_fast"} -> <<Tok("LK"), Tok("STOPJOIN"), Tok("CLEARSLOT"), Tok("SPAWN"), Tok("UK")>>      \* enable_fast: an interval of one nanosecond
      (* inc / dec / set_position: the position is an atomic outside every lock; the redraw request is a tick *)
      [] name = "inc"     -> <<Tok("LK"), Tok("RS"), Tok("UK"), Tok("IFNONE_TICK")>>
      [] name = "set_message" -> <<Tok("LS")>> \o Draw \o <<Tok("US")>>
      (* suspend: under the bar state lock; a member hides and repaints the whole MultiProgress under its write lock, held across the closure *)
      [] name = "suspend" -> <<Tok("LS")>> \o Draw \o <<Tok("US")>>
      [] name = "show"    -> <<Tok("LS"), Tok("US")>>             \* set_draw_target of a stand-alone bar: the old (hidden) target has nothing to disconnect
      [] name = "mp_println" -> <<Tok("WM"), Tok("UM")>>
      [] name = "mp_remove" -> <<Tok("LS"), Tok("RM_IFMEMBER"), Tok("US")>>      \* MultiProgress::remove: bar state, then MultiState
      (* MultiProgress::insert_after(&bar, new): the anchor's index is read under its state lock, the slot is made under the   *)
      (* MultiState lock, then the new bar (LN: its own state lock, which nobody else can hold) is pointed at the slot         *)
      [] name = "mp_insert_after" -> <<Tok("LS"), Tok("US"), Tok("WM"), Tok("UM"), Tok("LN"), Tok("UN")>>
      [] name = "drop"    -> <<Tok("DEC")>>
      (* the bars a caller inserted are dropped before its handle of the shared bar: an unfinished bar finishes (a draw through *)
      (* the MultiState lock) and is marked a zombie (the lock again)                                                          *)
      [] name = "drop_extra" -> <<Tok("WM"), Tok("UM"), Tok("WM"), Tok("UM")>>

CallerScript(c) ==
    <<Tok("BEGIN")>> \o (IF InitTicker /\ c = 1 THEN <<Call("enable")>> ELSE <<>>)
    \o [j \in 1..Len(Programs[c]) |-> Call(Programs[c][j])]
    \o [j \in 1..Cardinality({q \in 1..Len(Programs[c]) : Programs[c][q] = "mp_insert_after"}) |-> Call("drop_extra")]
    \o <<Call("drop")>>

G0 == [S |-> 0, K |-> 0, M |-> 0, MR |-> {}, F |-> [t \in Tickers |-> 0], stop |-> [t \in Tickers |-> FALSE], notified |-> [t \in Tickers |-> FALSE],
       slot |-> 0, fin |-> FALSE, removed |-> FALSE, handles |-> Len(Programs), dead |-> FALSE, tup |-> [t \in Tickers |-> FALSE],
       nt |-> 0,                                     \* tickers spawned so far
       cst |-> [c \in Callers |-> CallerScript(c)],  \* caller token stacks
       tst |-> [t \in Tickers |-> <<>>],             \* ticker token stacks
       tstate |-> [t \in Tickers |-> "none"],        \* none | live | done
       none |-> [c \in Callers |-> FALSE],           \* caller-local: "the slot was empty when I looked"
       ticks |-> 0, tickAfterFin |-> FALSE, joinedLive |-> FALSE]

(* thread identifiers inside the model: <<"c", i>> or <<"t", i>> *)
Stack(g, x) == IF x[1] = "c" THEN g.cst[x[2]] ELSE g.tst[x[2]]
SetStack(g, x, s) == IF x[1] = "c" THEN [g EXCEPT !.cst[x[2]] = s] ELSE [g EXCEPT !.tst[x[2]] = s]
Owner(x) == IF x[1] = "c" THEN x[2] ELSE 100 + x[2]

(* BarState::drop: an unfinished bar finishes (a draw), then the MultiProgress is told (mark_zombie: write lock) *)
BsDrop(g) == (IF g.fin THEN <<>> ELSE <<Tok("SETFIN")>> \o Draw) \o <<Tok("ZOMBIE"), Tok("SETDEAD")>>

(* Execute the non-parking tokens at the top of x's stack. *)
RECURSIVE Run(_, _)
Run(g, x) ==
    LET s == Stack(g, x) IN
    IF s = <<>> THEN g
    ELSE LET tk == Head(s)
             rest == Tail(s)
             me == Owner(x)
             push(g2, toks) == Run(SetStack(g2, x, toks \o rest), x)
         IN
         IF tk.k \in Parking THEN g
         ELSE CASE tk.k = "UK" -> push([g EXCEPT !.K = 0], <<>>)
                [] tk.k = "US" -> push([g EXCEPT !.S = 0], <<>>)
                [] tk.k = "UM" -> push([g EXCEPT !.M = 0], <<>>)
                [] tk.k = "UN" -> push(g, <<>>)
                [] tk.k = "URM" -> push([g EXCEPT !.MR = @ \ {me}], <<>>)
                [] tk.k = "WIDTH" -> push(g, IF Multi /\ ~g.removed THEN <<Tok("RM"), Tok("URM")>> ELSE <<>>)
                [] tk.k = "ZOMBIE" -> push(g, IF Multi /\ ~g.removed THEN <<Tok("WM"), Tok("UM")>> ELSE <<>>)
                [] tk.k = "UF" -> push([g EXCEPT !.F[tk.t] = 0], <<>>)
                [] tk.k = "RS" -> push([g EXCEPT !.none[x[2]] = (g.slot = 0)], <<>>)
                [] tk.k = "IFNONE_TICK" -> push(g, IF g.none[x[2]] THEN <<Tok("LS")>> \o Draw \o <<Tok("US")>> ELSE <<>>)
                [] tk.k = "DRAW_IFNONE" -> push(g, IF g.none[x[2]] THEN Draw ELSE <<>>)
                [] tk.k = "DRAW" -> push(g, IF Multi /\ ~g.removed THEN <<Tok("WM"), Tok("UM")>> ELSE <<>>)
                [] tk.k = "RM_IFMEMBER" -> push(g, IF Multi /\ ~g.removed THEN <<Tok("WM"), Tok("SETREMOVED"), Tok("UM")>> ELSE <<>>)
                [] tk.k = "SETREMOVED" -> push([g EXCEPT !.removed = TRUE], <<>>)
                [] tk.k = "SETFIN" -> push([g EXCEPT !.fin = TRUE], <<>>)
                [] tk.k = "SETDEAD" -> push([g EXCEPT !.dead = TRUE], <<>>)
                [] tk.k = "SETSTOP" -> push([g EXCEPT !.stop[tk.t] = TRUE], <<>>)
                [] tk.k = "STOPJOIN" -> push(g, IF g.slot = 0 THEN <<>> ELSE StopSeq(g.slot) \o StopSeq(g.slot) \o <<TokT("JOIN", g.slot)>>)
                [] tk.k = "CLEARSLOT" -> push([g EXCEPT !.slot = 0], <<>>)
                [] tk.k = "DEC" ->
                      LET h == g.handles - 1
                          g1 == [g EXCEPT !.handles = h]
                          last == h = 0
                          runsDrop == last /\ ~g.dead /\ \A t \in Tickers : ~g.tup[t]
                      IN push(g1, (IF runsDrop THEN BsDrop(g1) ELSE <<>>)
                                  \o (IF last /\ g.slot # 0 THEN StopSeq(g.slot) \o <<TokT("JOIN", g.slot), Tok("CLEARSLOT")>> ELSE <<>>))
                [] tk.k = "DROPARC" ->
                      LET g1 == [g EXCEPT !.tup[x[2]] = FALSE] IN
                      push(g1, IF g1.handles = 0 /\ ~g1.dead /\ (\A t \in Tickers : ~g1.tup[t]) THEN BsDrop(g1) ELSE <<>>)
                [] tk.k = "UPGRADE" ->
                      (* Weak::upgrade fails as soon as no strong reference is left, i.e. from the moment the last one is released *)
                      IF g.dead \/ (g.handles = 0 /\ \A t \in Tickers : ~g.tup[t]) THEN push(g, <<Tok("EXIT")>>)
                      ELSE push([g EXCEPT !.tup[x[2]] = TRUE], <<Tok("LS"), Tok("TK_CHECKFIN")>>)
                [] tk.k = "TK_CHECKFIN" ->
                      IF g.fin THEN push(g, <<Tok("US"), Tok("DROPARC"), Tok("EXIT")>>)
                      ELSE push([g EXCEPT !.ticks = IF @ < 3 THEN @ + 1 ELSE @], Draw \o <<Tok("US"), Tok("DROPARC"), TokT("LF", x[2]), Tok("TK_COND")>>)
                [] tk.k = "TK_COND" ->
                      IF g.stop[x[2]] THEN push(g, <<TokT("UF", x[2]), Tok("EXIT")>>)
                      ELSE push(g, <<TokT("UF", x[2]), Tok("WAIT")>>)
                [] tk.k = "TK_AFTERTIMEOUT" ->
                      IF g.stop[x[2]] THEN push(g, <<TokT("UF", x[2]), Tok("EXIT")>>)
                      ELSE push(g, <<TokT("UF", x[2]), Tok("UPGRADE")>>)
                [] tk.k = "EXIT" -> [SetStack(g, x, <<>>) EXCEPT !.tstate[x[2]] = "done"]
                [] tk.k = "CALL" -> push(g, CallTokens(tk.n))

Threads(g) == {<<"c", c>> : c \in Callers} \cup {<<"t", t>> : t \in {u \in Tickers : g.tstate[u] = "live"}}

(* a waiting ticker is woken by a notification (the condition is then evaluated again) or by the time-out *)
WaitWake(g, x) ==
    IF g.notified[x[2]] THEN {Run(SetStack([g EXCEPT !.notified[x[2]] = FALSE], x, <<TokT("LF", x[2]), Tok("TK_COND")>> \o Tail(Stack(g, x))), x)} ELSE {}
WaitTimeout(g, x) == {Run(SetStack(g, x, <<TokT("LF", x[2]), Tok("TK_AFTERTIMEOUT")>> \o Tail(Stack(g, x))), x)}

(* Outcomes of executing the parking token at the top of x's stack: a set of successor states. *)
StepOf(g, x) ==
    LET s == Stack(g, x) IN
    IF s = <<>> THEN {}
    ELSE LET tk == Head(s)
             me == Owner(x)
             cont(g2) == Run(SetStack(g2, x, Tail(s)), x)
         IN CASE tk.k = "BEGIN" -> {cont(g)}
              [] tk.k = "LK" -> IF g.K = 0 THEN {cont([g EXCEPT !.K = me])} ELSE {}
              [] tk.k = "LS" -> IF g.S = 0 THEN {cont([g EXCEPT !.S = me])} ELSE {}
              [] tk.k = "LN" -> {cont(g)}
              [] tk.k = "WM" -> IF g.M = 0 /\ g.MR = {} THEN {cont([g EXCEPT !.M = me])} ELSE {}
              [] tk.k = "RM" -> IF g.M = 0 THEN {cont([g EXCEPT !.MR = @ \cup {me}])} ELSE {}
              [] tk.k = "LF" -> IF g.F[tk.t] = 0 THEN {cont([g EXCEPT !.F[tk.t] = me])} ELSE {}
              [] tk.k = "NOTIFY" ->
                    (* a notification reaches the ticker only if it is waiting right now; otherwise it is lost *)
                    {cont(IF g.tst[tk.t] # <<>> /\ Head(g.tst[tk.t]).k = "WAIT" THEN [g EXCEPT !.notified[tk.t] = TRUE] ELSE g)}
              [] tk.k = "JOIN" -> IF g.tstate[tk.t] = "done" THEN {cont(g)} ELSE {}
              [] tk.k = "SPAWN" ->
                    IF g.nt < MaxTickers
                    THEN LET t == g.nt + 1 IN
                         {cont([g EXCEPT !.nt = t, !.slot = t, !.tstate[t] = "live", !.tst[t] = <<Tok("START"), Tok("UPGRADE")>>])}
                    ELSE {cont(g)}                    \* bound reached: the call returns without a new ticker
              [] tk.k = "START" -> {cont(g)}
              [] tk.k = "WAIT" -> WaitWake(g, x) \cup WaitTimeout(g, x)
              [] OTHER -> {}

IsTimeoutOnly(g, x) == Stack(g, x) # <<>> /\ Head(Stack(g, x)).k = "WAIT" /\ ~g.notified[x[2]]
CallersDone(g) == \A c \in Callers : g.cst[c] = <<>>
AllDone(g) == CallersDone(g) /\ \A t \in Tickers : g.tstate[t] # "live"

Init == G = G0 /\ hist = <<>> /\ done = FALSE

Step == /\ ~done
        /\ \E x \in Threads(G) : \E g2 \in StepOf(G, x) :
              /\ G' = g2
              /\ hist' = Append(hist, IF x[1] = "c" THEN x[2] - 1 ELSE TId(x[2]))
        /\ UNCHANGED done

(* every reachable state's schedule is printed once, when the state is expanded *)
Emit == /\ ~done /\ hist # <<>>
        /\ PrintT(<<"REPLAY", ToJson([schedule |-> hist, terminal |-> AllDone(G)])>>)
        /\ done' = TRUE /\ UNCHANGED <<G, hist>>

Finished == AllDone(G) /\ UNCHANGED vars      \* termination is not a deadlock

Next == Step \/ Emit \/ Finished
Spec == Init /\ [][Next]_vars

View == <<G, done>>

(* ------------------------------ properties ------------------------------ *)
Enabled(g) == {x \in Threads(g) : StepOf(g, x) # {}}
(* C08: no interleaving blocks forever *)
NoDeadlock == AllDone(G) \/ Enabled(G) # {}
(* ... independently of the tick interval: a time-out is never the only way forward while a caller is unfinished *)
NoTimeoutDependence == CallersDone(G) \/ \E x \in Enabled(G) : ~IsTimeoutOnly(G, x)
(* the ticker stops when the bar is finished *)
NoTickAfterFinish == ~G.tickAfterFin
(* at most one ticker is installed, and a ticker that is not installed any more has been stopped *)
SlotOK == G.slot = 0 \/ G.tstate[G.slot] # "none"
LocksOK == G.S \in {0} \cup Callers \cup {100 + t : t \in Tickers} /\ G.handles >= 0
(* when everything is done every ticker thread has exited and the state was dropped exactly once *)
CleanEnd == AllDone(G) => (G.dead /\ G.S = 0 /\ G.K = 0 /\ G.M = 0 /\ G.MR = {})
=============================================================================
