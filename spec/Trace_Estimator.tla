--------------------------- MODULE Trace_Estimator ---------------------------
(* MONITOR for C09: the estimator laws of EstimatorLaws.tla evaluated at     *)
(* every query of traces recorded from the real ProgressBar (harness `est`). *)
EXTENDS EstimatorLaws, Json, IOUtils
Rec == ndJsonDeserialize(IOEnv.TRACE)
VARIABLES i, E, dead, bad, st
vars == <<i, E, dead, bad, st>>
St0 == [recs |-> 0, hists |-> 0, queries |-> 0, steady |-> 0, stalls |-> 0, decayed |-> 0, twins |-> 0, etas |-> 0, zero |-> 0]
NoRate == [m |-> <<0>>, e |-> 315, finite |-> TRUE, neg |-> FALSE, tiny |-> FALSE]
E0 == [segs |-> <<>>, lastT |-> <<0>>, epochT |-> <<0>>, lastQ |-> NoRate, hasQ |-> FALSE]

(* segment rate s.dn/s.dt <= logged rate q (1 + 10^-6):  s.dn * 10^9 <= q * s.dt (1 + 10^-6) *)
RateLe2(s, q) == Le(Mul(Rhs(q, s.dn), Pow10(6)), Mul(Lhs(q, s.dt), Add(Pow10(6), <<1>>)))
Ns600 == Mul(Pow10(9), <<600>>)              \* ten minutes in ns
Huge == Mul(Pow10(27), <<4>>)                \* 4 * 10^27 ns ~ 2^62 s: beyond this an ETA is "astronomically large"

(* verdict for one query record r in estimator state e *)
QRule(e, r) ==
    LET rate == r.rate
        atLast == Eq(r.t, e.lastT)
        stall == Sub(r.t, e.lastT)
        rem == IF r.haslen /\ Lt(r.pos, r.len) THEN Sub(r.len, r.pos) ELSE <<0>>
        mx == MaxSeg(e.segs, Len(e.segs))
    IN
    IF ~rate.finite \/ rate.neg THEN "FiniteOK"
    ELSE IF r.fin THEN (IF ~IsZero(r.eta) THEN "EtaZero" ELSE IF ~IsZero(r.dur) THEN "DurationOK" ELSE "")
    ELSE IF e.segs = <<>> /\ ~IsZeroRate(rate) THEN "NoProgressZero"
    ELSE IF e.segs # <<>> /\ Steady(e.segs) /\ atLast /\ ~RateIs(rate, e.segs[1].dt, e.segs[1].dn) THEN "SteadyOK"
    ELSE IF e.segs # <<>> /\ ~RateLe(rate, mx.dt, mx.dn) THEN "UpperOK"
    ELSE IF e.hasQ /\ ~RLe(rate, e.lastQ) THEN
            (* a doubly smoothed estimate that is still below the peak segment rate lags behind *)
            (* its singly smoothed source and may keep rising at first (known finding D22)      *)
            (IF e.segs # <<>> /\ ~RateLe2(mx, e.lastQ) THEN "DecayMonotoneLag" ELSE "DecayMonotone")
    ELSE IF e.segs # <<>> /\ Le(Ns600, stall) /\ ~Le(Mul(Lhs(rate, mx.dt), Pow10(6)), Rhs(rate, mx.dn)) THEN "DecayToZero"
    ELSE IF r.hastwin /\ ~RNear(rate, r.twin) THEN "ForgetOK"
    ELSE IF (~r.haslen \/ (IsZeroRate(rate) /\ ~rate.tiny)) /\ ~IsZero(r.eta) THEN "EtaZero"
    ELSE IF r.haslen /\ ~IsZeroRate(rate) /\ Lt(r.eta, Huge)
            /\ ~Le(Mul(AbsDiff(Lhs(rate, r.eta), Rhs(rate, rem)), Pow10(6)), Add(Rhs(rate, rem), Mul(Lhs(rate, <<2>>), Pow10(6)))) THEN "EtaOK"
    ELSE IF r.haslen /\ ~IsZeroRate(rate) /\ ~Lt(r.eta, Huge) /\ ~Le(Lhs(rate, Huge), Mul(Rhs(rate, rem), <<2>>)) THEN "EtaOK"
    ELSE IF ~r.haslen /\ ~IsZero(r.dur) THEN "DurationOK"
    ELSE IF r.haslen /\ ~Eq(r.dur, Add(r.elapsed, r.eta)) /\ Lt(r.eta, Huge) THEN "DurationOK"
    ELSE ""

Apply(e, r) ==
    CASE r.op = "new" -> [E0 EXCEPT !.lastT = r.t, !.epochT = r.t]
      [] r.op = "upd" -> IF ~IsZero(r.steps) /\ Lt(e.lastT, r.t)
                         THEN [e EXCEPT !.segs = Append(e.segs, [dn |-> r.steps, dt |-> Sub(r.t, e.lastT)]), !.lastT = r.t, !.hasQ = FALSE]
                         ELSE e
      [] r.op \in {"reset_eta", "reset", "rewind"} -> [E0 EXCEPT !.lastT = r.t, !.epochT = r.t]
      [] r.op = "query" -> [e EXCEPT !.lastQ = r.rate, !.hasQ = TRUE]
      [] OTHER -> e

Init == /\ i = 1 /\ E = E0 /\ dead = TRUE /\ bad = <<>> /\ st = St0
        /\ TLCSet(1, <<>>) /\ TLCSet(2, St0) /\ TLCSet(3, 1)
Next ==
    /\ i <= Len(Rec)
    /\ \E r \in {Rec[i]} :
       IF r.op = "init" THEN /\ E' = E0 /\ dead' = FALSE /\ bad' = bad /\ st' = [st EXCEPT !.recs = @ + 1, !.hists = @ + 1]
       ELSE IF dead THEN UNCHANGED <<E, dead, bad>> /\ st' = [st EXCEPT !.recs = @ + 1]
       ELSE \E rule \in {IF r.panic # "" THEN "NoPanic" ELSE IF r.op = "query" THEN QRule(E, r) ELSE ""} :
            /\ E' = IF r.panic # "" THEN E ELSE Apply(E, r)        \* a record of a panicking call carries no getters
            /\ dead' = (rule # "")
            /\ bad' = IF rule = "" THEN bad ELSE Append(bad, [h |-> r.h, i |-> r.i, rule |-> rule, op |-> r.op])
            /\ st' = IF r.op # "query" \/ r.panic # "" THEN [st EXCEPT !.recs = @ + 1]
                     ELSE [st EXCEPT !.recs = @ + 1, !.queries = @ + 1,
                                     !.steady = @ + (IF E.segs # <<>> /\ Steady(E.segs) /\ Eq(r.t, E.lastT) THEN 1 ELSE 0),
                                     !.stalls = @ + (IF E.hasQ THEN 1 ELSE 0),
                                     !.decayed = @ + (IF E.segs # <<>> /\ Le(Ns600, Sub(r.t, E.lastT)) THEN 1 ELSE 0),
                                     !.twins = @ + (IF r.hastwin THEN 1 ELSE 0),
                                     !.etas = @ + (IF r.haslen /\ ~IsZeroRate(r.rate) /\ ~r.fin THEN 1 ELSE 0),
                                     !.zero = @ + (IF IsZeroRate(r.rate) THEN 1 ELSE 0)]
    /\ i' = i + 1
    /\ TLCSet(1, bad') /\ TLCSet(2, st') /\ TLCSet(3, i')
Spec == Init /\ [][Next]_vars
Post == PrintT(<<"VERDICTS", ToJson([consumed |-> TLCGet(3) - 1, total |-> Len(Rec), bad |-> TLCGet(1), st |-> TLCGet(2)])>>)
=============================================================================
