------------------------------- MODULE Linear -------------------------------
(***************************************************************************)
(* CONTRACT for public calls issued concurrently from several threads on   *)
(* shared handles (the schedule clauses of C01 C02 C03 C16): once every    *)
(* thread has returned from its last call, the terminal and the getters    *)
(* are what SOME sequential order of the same calls - each thread's calls  *)
(* in program order - produces according to the sequential contract        *)
(* (Screen!Apply).  In particular the screen is the emitted log lines,     *)
(* each once (the order of lines from different threads is free, the order *)
(* of one thread's lines is not), followed by every bar's rendering of its *)
(* final state exactly once: no remnant of a frame that a concurrent call  *)
(* repainted while another call was half-way through, no line of a suspend *)
(* closure inside or below the region, and message() / prefix() expanded   *)
(* with the tab width that is in force at the end.                         *)
(*                                                                         *)
(* Nothing here mentions locks: which interleavings of the library's       *)
(* critical sections exist is the business of Sync.tla; this module says   *)
(* what every one of them must add up to.  The programs have no rate       *)
(* limiter and drop no handle, so every draw request paints and nothing    *)
(* may vanish: the sequential contract is deterministic for them.          *)
(***************************************************************************)
EXTENDS Screen

(* every field Screen!Apply may read *)
Full(o) == o @@ [b |-> 0, b2 |-> 0, idx |-> 0, n |-> 0, m |-> <<>>, tpl |-> "", a |-> "", target |-> "spy", t |-> 0, dt |-> 0,
                 len |-> 3, fin |-> "AndLeave", fm |-> <<>>, m0 |-> <<>>, p0 |-> <<>>, pos0 |-> 0, tabw |-> 8]

(* one call of a sequential execution in which every draw request paints *)
SeqStep(S, o) ==
    LET res == Apply(S, Full(o))
        items == [j \in 1..Len(res.log) |-> LogItem(res.log[j])]
    IN [res.S EXCEPT !.above = res.S.above \o items]

RECURSIVE SeqRun(_, _, _)
SeqRun(S, ops, i) == IF i > Len(ops) THEN S ELSE SeqRun(SeqStep(S, ops[i]), ops, i + 1)

(* all interleavings of the threads' call sequences that keep each thread's program order *)
RECURSIVE Orders(_)
Orders(ths) ==
    LET live == {t \in 1..Len(ths) : ths[t] # <<>>} IN
    IF live = {} THEN {<<>>}
    ELSE UNION { { <<Head(ths[t])>> \o rest : rest \in Orders([ths EXCEPT ![t] = Tail(ths[t])]) } : t \in live }

(* what the terminal shows at the end of a sequential execution *)
FinalRows(S) == TrimRows(Layout(AboveLines(S, S.above) \o ShownLines(S, S.order), S.w).rows)

GetterOK(B, g) ==
    /\ ~g.poisoned
    /\ g.msg = TabX(B.msg, B.tabw)
    /\ g.prefix = TabX(B.prefix, B.tabw)
    /\ g.fin = (B.fin # "no")
    /\ g.pos_s = B.pos
    /\ g.haslen = (B.len # NoLen)
    /\ (B.len # NoLen => g.len_s = B.len)
GettersOK(S, gets) == \A b \in 1..Len(gets) : b \in S.ids => GetterOK(S.bars[b], gets[b])

(* the candidates: final contract states of all sequential orders *)
Finals(S0, ths) == { SeqRun(S0, ord, 1) : ord \in Orders(ths) }
=============================================================================
