------------------------------ MODULE MC_Term ------------------------------
(* Behaviours of Term.tla for the conformance check against the vt100     *)
(* emulator (the repository's InMemoryTerm is a thin wrapper around it).  *)
EXTENDS Term, TLC, Json
CONSTANTS W, H, D
VARIABLES t, hist, last
vars == <<t, hist, last>>

A == 97
WIDE == 1000
CallSet ==
    { [k |-> "up", n |-> n, c |-> <<>>] : n \in 0..2 } \cup
    { [k |-> "down", n |-> n, c |-> <<>>] : n \in 1..2 } \cup
    { [k |-> "clear", n |-> 0, c |-> <<>>] } \cup
    { [k |-> "str", n |-> 0, c |-> s] : s \in { <<A>>, [j \in 1..W |-> A + j], [j \in 1..(W+1) |-> 65 + j],
                                               <<WIDE>>, <<A, WIDE>>, <<2000>>, <<CR>>, <<WIDE, WIDE+1, 98>> } } \cup
    { [k |-> "line", n |-> 0, c |-> s] : s \in { <<>>, <<120>>, [j \in 1..W |-> 48 + j] } }

Init == t = TInit(W, H) /\ hist = <<>> /\ last = "none"
Next == /\ Len(hist) < D
        /\ \E x \in CallSet : t' = Call(t, x) /\ hist' = Append(hist, x) /\ last' = x
Spec == Init /\ [][Next]_vars
View == <<t, last>>
Emit == PrintT(<<"REPLAY", ToJson([w |-> W, h |-> H, calls |-> hist, rows |-> t.rows, r |-> t.r, c |-> t.c, top |-> t.top])>>)
TypeOK == t.r >= t.top /\ t.r <= t.top + t.h - 1 /\ t.c >= 0 /\ t.c <= t.w /\ Len(t.rows) >= t.r
=============================================================================
