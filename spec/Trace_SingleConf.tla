--------------------------- MODULE Trace_SingleConf ---------------------------
(***************************************************************************)
(* TRACE VALIDATION for the implementation-shaped model of the single-bar  *)
(* draw path (MC_Single!ImplStep on DrawTarget!DrawToTerm: last_line_count, *)
(* cursor flag, right-edge filler, text-only newline, height cut).  Every   *)
(* record of a history replayed on the real library carries the terminal    *)
(* calls the operation caused; the model performs the same operation and    *)
(* must end with the same terminal (rows, viewport, cursor).  See           *)
(* Trace_MultiConf for what conformance is used for.                        *)
(***************************************************************************)
EXTENDS MC_Single, IOUtils
Rec == ndJsonDeserialize(IOEnv.TRACE)
VARIABLES i, T, dead, res
cvars == <<S, hist, nlog, done, I, d, i, T, dead, res>>

Canon(t) == <<AllRows(t), t.top, t.r, t.c>>

AdvanceS(S0, r) ==
    LET a == Apply(S0, r)
        hm == HeadMove(a.S, a.S.above, a.S.order)
    IN [a.S EXCEPT !.above = hm.above \o [j \in 1..Len(a.log) |-> LogItem(a.log[j])], !.order = hm.order]

(* a spy terminal (with or without a refresh rate whose interval is a whole number of microseconds), no retargeting: the alphabet of ImplStep *)
Supported(r) == r.cfg.w = W /\ r.cfg.h = H /\ ~r.cfg.multi /\ ~r.cfg.pty
OpOK(r) == r.op \notin {"set_target", "fail_at"} /\ (r.op = "new" => (r.target = "spy" \/ (r.target = "spy_hz" /\ LimExact(r.hz))))

R0 == [recs |-> 0, hists |-> 0, conform |-> 0, skipped |-> 0, first |-> <<>>]
D0 == [t |-> TInit(W, H), llc |-> 0, atEnd |-> FALSE, lim |-> NoLim]
ConfInit == /\ S = <<>> /\ hist = <<>> /\ nlog = 0 /\ done = FALSE /\ I = I0 /\ d = D0
            /\ i = 1 /\ T = <<>> /\ dead = TRUE /\ res = R0 /\ TLCSet(1, R0)
ConfNext ==
    /\ i <= Len(Rec)
    /\ \E r \in {Rec[i]} :
        IF r.op = "init" THEN
            \E t0 \in {Calls(TInit(r.cfg.w, r.cfg.h), r.calls)} :
            /\ S' = SInit(r.cfg.w, r.cfg.h, r.cfg.multi, r.cfg.mphid, r.cfg.align)
            /\ T' = t0
            /\ d' = [D0 EXCEPT !.t = t0]
            /\ dead' = ~Supported(r)
            /\ res' = [res EXCEPT !.hists = @ + 1, !.conform = @ + (IF ~dead THEN 1 ELSE 0), !.skipped = @ + (IF Supported(r) THEN 0 ELSE 1)]
        ELSE IF dead THEN UNCHANGED <<S, T, d, dead, res>>
        ELSE IF ~OpOK(r) THEN
            (* outside the model's alphabet: the rest of the history is not judged (counted as skipped) *)
            /\ UNCHANGED <<S, T, d>> /\ dead' = TRUE /\ res' = [res EXCEPT !.skipped = @ + 1]
        ELSE \E S1 \in {AdvanceS(S, r)} : \E t1 \in {Calls(T, r.calls)} : \E d1 \in {ImplStep(d, r, S, S1)} :
            /\ S' = S1 /\ T' = t1 /\ d' = d1
            /\ dead' = (r.panic # "" \/ Canon(d1.t) # Canon(t1))
            /\ res' = [res EXCEPT !.recs = @ + 1,
                                  !.first = IF ~dead' \/ Len(@) >= 5 THEN @ ELSE Append(@, [h |-> r.h, i |-> r.i, op |-> r.op])]
    /\ i' = i + 1
    /\ TLCSet(1, [res' EXCEPT !.conform = @ + (IF i' > Len(Rec) /\ ~dead' THEN 1 ELSE 0)])
    /\ UNCHANGED <<hist, nlog, done, I>>
ConfSpec == ConfInit /\ [][ConfNext]_cvars
ConfPost == PrintT(<<"CONFORMANCE", ToJson(TLCGet(1))>>)
=============================================================================
