------------------------------ MODULE Adaptors ------------------------------
(***************************************************************************)
(* CONTRACT for the progress-bar adaptors (property C17).                  *)
(*                                                                         *)
(* A wrapped object is a scripted source or sink: every call it receives   *)
(* returns what the script says.  A record r of an operation carries       *)
(*    r.ret    what the wrapper returned to the caller                     *)
(*    r.tret   what the unwrapped object returns for the same script       *)
(*    r.same   the caller-visible data (bytes read, bytes reaching the     *)
(*             sink, remaining items) agree with the unwrapped object      *)
(*    r.calls  the calls the wrapped source received: [f, n, r, k] =       *)
(*             function, size requested, response, count transferred       *)
(*    r.pos r.fin r.msg   position() is_finished() message() afterwards    *)
(*                                                                         *)
(* Transparent:  ret = tret and same.                                      *)
(* Exact count:  the bar state after the operation is the fold of the      *)
(*   source's calls over the state before it:                              *)
(*     read / read_vectored / write / write_vectored / poll_read /         *)
(*     poll_write answered Ok(k)        pos + k   (nothing on Err/Pending) *)
(*     consume(amt)                     pos + amt (fill_buf adds nothing)  *)
(*     next / next_back / poll_next     Some -> pos + 1, Pending -> same,  *)
(*                                      None -> the finish behaviour, once *)
(*   a completed seek (Seek::seek, rewind, AsyncSeek::poll_complete)       *)
(*   sets the position to the new offset, a failed one changes nothing.    *)
(* read_exact / read_to_string that fail after a partial transfer leave    *)
(* the number of transferred bytes unspecified: anything from pos to       *)
(* pos + moved is accepted; stream_position may or may not re-sync.        *)
(*                                                                         *)
(* Rayon: for every split tree and consumption order, after c items were   *)
(* handed over position = pos0 + c, the items are the source's items, and  *)
(* the bar is not finished while items remain.                             *)
(***************************************************************************)
EXTENDS U64, TLC

XferF == {"read", "read_vectored", "write", "write_vectored", "poll_read", "poll_write"}
ItemF == {"next", "next_back", "poll_next"}
SeekOps == {"seek", "rewind", "poll_complete"}
LenientErr == {"read_exact", "read_to_string"}

S0(new) == [pos |-> new.pos0, fin |-> FALSE, msg |-> "", haslen |-> new.haslen, len |-> new.len, beh |-> new.beh, fm |-> new.fm]

SetsPos(beh) == beh \in {"AndLeave", "WithMessage", "AndClear"}
SetsMsg(beh) == beh \in {"WithMessage", "AbandonWithMessage"}
Finish(S) == IF S.fin THEN S
             ELSE [S EXCEPT !.fin = TRUE, !.pos = IF S.haslen /\ SetsPos(S.beh) THEN S.len ELSE @, !.msg = IF SetsMsg(S.beh) THEN S.fm ELSE @]

Call(S, c) ==
    IF c.f \in XferF /\ c.r = "ok" THEN [S EXCEPT !.pos = WrapAdd(@, FromSmall(c.k))]
    ELSE IF c.f = "consume" THEN [S EXCEPT !.pos = WrapAdd(@, FromSmall(c.n))]
    ELSE IF c.f \in ItemF /\ c.r = "item" THEN [S EXCEPT !.pos = WrapAdd(@, FromSmall(1))]
    ELSE IF c.f \in ItemF /\ c.r = "none" THEN Finish(S)
    ELSE S
RECURSIVE Fold(_, _, _)
Fold(S, calls, j) == IF j > Len(calls) THEN S ELSE Fold(Call(S, calls[j]), calls, j + 1)
RECURSIVE MovedFrom(_, _)
MovedFrom(calls, j) == IF j > Len(calls) THEN 0
                       ELSE (IF calls[j].f \in XferF /\ calls[j].r = "ok" THEN calls[j].k ELSE IF calls[j].f = "consume" THEN calls[j].n ELSE 0) + MovedFrom(calls, j + 1)
Moved(calls) == MovedFrom(calls, 1)

(* Seek::seek_relative returns nothing: the new offset is what the inner stream's seek reported (call field k, capped at 2^30: *)
(* beyond that the position is not judged)                                                                                     *)
LastSeekOk(calls) == LET I == {j \in 1..Len(calls) : calls[j].f = "seek" /\ calls[j].r = "ok"} IN IF I = {} THEN 0 ELSE CHOOSE j \in I : \A q \in I : q <= j
Step(S, r) ==
    CASE r.op = "seek_relative" -> LET j == LastSeekOk(r.calls) IN
                                   IF j = 0 THEN S ELSE IF r.calls[j].k >= 1073741824 THEN [S EXCEPT !.pos = r.pos] ELSE [S EXCEPT !.pos = FromSmall(r.calls[j].k)]
      [] r.op \in SeekOps -> IF r.tret.k = "ok" THEN [S EXCEPT !.pos = r.tret.n] ELSE S
      [] r.op = "reset_bar" -> [S EXCEPT !.pos = Zero, !.fin = FALSE]          \* the caller's own reset(): the configured finish behaviour applies again at the next exhaustion
      [] r.op = "poke" -> [S EXCEPT !.pos = FromSmall(1), !.msg = "z"]          \* the caller's own set_position(1), set_message("z")
      [] OTHER -> Fold(S, r.calls, 1)

Transparent(r) == r.ret = r.tret /\ r.same
Lenient(r) == r.op \in LenientErr /\ r.tret.k = "err"
PosOK(S, S1, r) ==
    IF Lenient(r) THEN \E j \in 0..Moved(r.calls) : r.pos = WrapAdd(S.pos, FromSmall(j))
    ELSE IF r.op = "stream_position" THEN r.pos = S.pos \/ (r.tret.k = "ok" /\ r.pos = r.tret.n)
    ELSE r.pos = S1.pos
FinishOK(S1, r) == r.fin = S1.fin /\ r.msg = S1.msg
(* a size hint must be sound for the items that remain *)
HintOK(r) == r.op = "size_hint" => (r.lo <= r.rem /\ (r.hi = -1 \/ r.hi >= r.rem))

(* ---- rayon ---- *)
P0(new) == [n |-> new.n, c |-> 0, pos0 |-> new.pos0]
(* "items": Folder::consume_iter; r.got = how many of them the base folder (the harness's own) took *)
ParStep(P, r) == IF r.op = "item" /\ r.got >= 0 THEN [P EXCEPT !.c = @ + 1]
                 ELSE IF r.op = "items" /\ r.got >= 0 THEN [P EXCEPT !.c = @ + r.got] ELSE P
ParPosOK(P1, r) == r.pos = WrapAdd(P1.pos0, FromSmall(P1.c)) \/ (r.fin /\ P1.c = P1.n)     \* once everything is consumed the finish behaviour may apply
ParNotEarly(P1, r) == r.fin => P1.c = P1.n
ParItemOK(r) == (r.op = "item" => r.got = r.want) /\ (r.op = "items" => r.got = r.expect)
ParEndOK(r) == r.op = "end" => r.got = -1
=============================================================================
