------------------------------- MODULE Cells -------------------------------
(***************************************************************************)
(* A character as the terminal sees it.  A cell is an integer g:           *)
(*    1..999      one column (ASCII code or a small table, see tok.rs)     *)
(*    1000..1999  two columns (CJK ideographs, emoji)                      *)
(*    2000..2999  zero columns (SGR sequence, combining mark, other CSI)   *)
(* 9 = TAB, 10 = LF, 13 = CR are control cells.  Column widths are input   *)
(* facts supplied by the harness tokeniser, not something TLC computes.    *)
(***************************************************************************)
EXTENDS Naturals, Sequences

TAB == 9
NL  == 10
CR  == 13
SP  == 32

CW(g) == IF g < 1000 THEN 1 ELSE IF g < 2000 THEN 2 ELSE 0

IsCtl(g) == g = TAB \/ g = NL \/ g = CR

RECURSIVE ColsFrom(_, _)
ColsFrom(s, i) == IF i > Len(s) THEN 0 ELSE CW(s[i]) + ColsFrom(s, i + 1)
(* Columns of a line (no control cells expected). *)
Cols(s) == ColsFrom(s, 1)

Rep(g, n) == [j \in 1..n |-> g]

(* Split a text on NL into pieces (always at least one piece). *)
RECURSIVE SplitFrom(_, _, _)
SplitFrom(s, i, cur) ==
    IF i > Len(s) THEN <<cur>>
    ELSE IF s[i] = NL THEN <<cur>> \o SplitFrom(s, i + 1, <<>>)
    ELSE SplitFrom(s, i + 1, Append(cur, s[i]))
Split(s) == SplitFrom(s, 1, <<>>)

(* What println(text) is specified to emit: split on newline, one trailing  *)
(* empty piece dropped, the empty text is one empty line.                   *)
TextLines(s) ==
    IF s = <<>> THEN << <<>> >>
    ELSE LET p == Split(s) IN
         IF p[Len(p)] = <<>> THEN SubSeq(p, 1, Len(p) - 1) ELSE p

(* Replace every TAB by tw spaces. *)
RECURSIVE TabXFrom(_, _, _)
TabXFrom(s, i, tw) ==
    IF i > Len(s) THEN <<>>
    ELSE (IF s[i] = TAB THEN Rep(SP, tw) ELSE <<s[i]>>) \o TabXFrom(s, i + 1, tw)
TabX(s, tw) == TabXFrom(s, 1, tw)

HasTab(s) == \E i \in 1..Len(s) : s[i] = TAB

(* Decimal digits of a small natural as cells. *)
RECURSIVE Dec(_)
Dec(n) == IF n < 10 THEN <<48 + n>> ELSE Append(Dec(n \div 10), 48 + (n % 10))

RECURSIVE Concat(_)
Concat(ss) == IF ss = <<>> THEN <<>> ELSE Head(ss) \o Concat(Tail(ss))
=============================================================================
