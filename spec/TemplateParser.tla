--------------------------- MODULE TemplateParser ---------------------------
(***************************************************************************)
(* IMPLEMENTATION-SHAPED model of Template::from_str_with_tab_width        *)
(* (src/style.rs): the eight-state machine Literal, MaybeOpen,             *)
(* DoubleClose, Key, Align, Width, FirstStyle, AltStyle over character     *)
(* CLASSES, with its buffer, its part list, the whitespace back-track and  *)
(* the numeric width conversion, plus the two pseudo-states "err"          *)
(* (TemplateError returned) and "panic".                                   *)
(*                                                                         *)
(* A template is a sequence of cells (integers, see Cells.tla / tpl.rs):   *)
(* ASCII codes, 233 = e-acute, 1000.. = wide glyphs, 2001 = combining      *)
(* mark, 997 / 998 = "some other ASCII / non-ASCII character" (the driver  *)
(* substitutes seeded random ones).                                        *)
(*                                                                         *)
(* This module is never the basis of a verdict: it yields the transition   *)
(* cover (strings that reach every (state, class) transition) and the      *)
(* design-level comparison with TemplateGrammar.tla.  Deliberate switches  *)
(* document the two defects found in the pinned code:                      *)
(*    WidthOverflow = "panic"  original  buf.parse::<u16>().unwrap()  (D7) *)
(*                  = "err"    repaired  (TemplateError)                   *)
(*    Backtrack     = "orig"   original  "{" + buf with buf still holding  *)
(*                             the preceding literal                  (D8) *)
(*                  = "fixed"  repaired  (preceding literal, then "{")     *)
(***************************************************************************)
EXTENDS Naturals, Sequences
CONSTANTS WidthOverflow, Backtrack

Classes == {"LB", "RB", "NL", "WS", "COLON", "BANG", "ALIGN", "DIGIT", "DOT", "SLASH", "ALPHA", "OTHER"}
Class(c) ==
    CASE c = 123 -> "LB"
      [] c = 125 -> "RB"
      [] c = 10 -> "NL"
      [] c \in {32, 9, 12, 13} -> "WS"               \* char::is_ascii_whitespace (with NL)
      [] c = 58 -> "COLON"
      [] c = 33 -> "BANG"
      [] c \in {60, 94, 62} -> "ALIGN"
      [] c \in 48..57 -> "DIGIT"
      [] c = 46 -> "DOT"
      [] c = 47 -> "SLASH"
      [] c >= 128 -> "OTHER"
      [] OTHER -> "ALPHA"
IsWs(c) == Class(c) \in {"WS", "NL"}

(* parts; one record shape for all kinds: k \in {"lit", "nl", "ph"} *)
Lit(text) == [k |-> "lit", text |-> text, al |-> 0, hasw |-> FALSE, w |-> <<>>, tr |-> FALSE, sty |-> <<>>, alt |-> <<>>]
NewLine == [k |-> "nl", text |-> <<>>, al |-> 0, hasw |-> FALSE, w |-> <<>>, tr |-> FALSE, sty |-> <<>>, alt |-> <<>>]
Ph(key, tr) == [k |-> "ph", text |-> key, al |-> 0, hasw |-> FALSE, w |-> <<>>, tr |-> tr, sty |-> <<>>, alt |-> <<>>]

(* does a digit string denote a number above u16::MAX ? *)
RECURSIVE StripZeros(_)
StripZeros(d) == IF d # <<>> /\ Head(d) = 48 THEN StripZeros(Tail(d)) ELSE d
RECURSIVE DigitsVal(_, _)
DigitsVal(d, i) == IF i = 0 THEN 0 ELSE DigitsVal(d, i - 1) * 10 + (d[i] - 48)
TooBig(d) == LET s == StripZeros(d) IN Len(s) > 5 \/ (Len(s) = 5 /\ DigitsVal(s, 5) > 65535)

PInit == [st |-> "Literal", buf |-> <<>>, parts |-> <<>>]
Halted(ps) == ps.st \in {"err", "panic"}

LastIsPh(ps) == ps.parts # <<>> /\ ps.parts[Len(ps.parts)].k = "ph"
SetLast(ps, f, v) == IF LastIsPh(ps) THEN [ps EXCEPT !.parts[Len(ps.parts)][f] = v] ELSE ps
Err(ps) == [ps EXCEPT !.st = "err"]

(* the second `match (state, new.0)` of the loop: what leaving `from` for `to` does with the buffer *)
Leave(ps, from, to) ==
    IF ps.buf = <<>> THEN ps
    ELSE CASE from = "MaybeOpen" /\ to = "Key" -> [ps EXCEPT !.parts = Append(@, Lit(ps.buf)), !.buf = <<>>]
           [] from = "Key" /\ to \in {"Align", "Literal"} -> [ps EXCEPT !.parts = Append(@, Ph(ps.buf, FALSE)), !.buf = <<>>]
           [] from = "Width" /\ to \in {"FirstStyle", "Literal"} ->
                IF ~LastIsPh(ps) THEN ps                                  \* buffer kept (cannot happen: Width is only entered after a placeholder)
                ELSE IF TooBig(ps.buf) THEN [ps EXCEPT !.st = WidthOverflow]
                ELSE [SetLast(SetLast(ps, "w", ps.buf), "hasw", TRUE) EXCEPT !.buf = <<>>]
           [] from = "FirstStyle" /\ to \in {"AltStyle", "Literal"} -> [SetLast(ps, "sty", ps.buf) EXCEPT !.buf = <<>>]
           [] from = "AltStyle" /\ to = "Literal" -> [SetLast(ps, "alt", ps.buf) EXCEPT !.buf = <<>>]
           [] OTHER -> ps

(* go to state `to`, pushing `push` (a sequence of 0 or 1 cells) afterwards *)
Go(ps, to, push) ==
    LET q == Leave(ps, ps.st, to) IN
    IF Halted(q) THEN q ELSE [q EXCEPT !.st = to, !.buf = @ \o push]

BacktrackLit(ps, c) ==
    IF Backtrack = "orig" \/ ps.st = "Key"
    THEN <<123>> \o ps.buf \o <<c>>               \* "{" + buf + c   (in Key the buffer holds the key characters read so far)
    ELSE ps.buf \o <<123, c>>                     \* preceding literal, then "{" and the whitespace

PStep(ps, c) ==
    LET cl == Class(c) st == ps.st IN
    CASE st = "Literal" ->
            (CASE cl = "LB" -> Go(ps, "MaybeOpen", <<>>)
               [] cl = "NL" -> [ps EXCEPT !.parts = (IF ps.buf = <<>> THEN @ ELSE Append(@, Lit(ps.buf))) \o <<NewLine>>, !.buf = <<>>]
               [] cl = "RB" -> Go(ps, "DoubleClose", <<c>>)
               [] OTHER -> Go(ps, "Literal", <<c>>))
      [] st = "DoubleClose" -> IF cl = "RB" THEN Go(ps, "Literal", <<>>) ELSE Err(ps)
      [] st = "MaybeOpen" ->
            (CASE cl = "LB" -> Go(ps, "Literal", <<c>>)
               [] IsWs(c) -> [ps EXCEPT !.parts = Append(@, Lit(BacktrackLit(ps, c))), !.buf = <<>>, !.st = "Literal"]
               [] cl \in {"RB", "COLON"} -> Err(ps)
               [] OTHER -> Go(ps, "Key", <<c>>))
      [] st = "Key" ->
            (CASE IsWs(c) -> [ps EXCEPT !.parts = Append(@, Lit(BacktrackLit(ps, c))), !.buf = <<>>, !.st = "Literal"]
               [] cl = "COLON" -> Go(ps, "Align", <<>>)
               [] cl = "RB" -> Go(ps, "Literal", <<>>)
               [] OTHER -> Go(ps, "Key", <<c>>))          \* includes '!' and '{': the (Key, '!') arm of the code is unreachable
      [] st = "Align" ->
            (CASE cl = "ALIGN" -> Go(SetLast(ps, "al", c), "Width", <<>>)
               [] cl = "DIGIT" -> Go(ps, "Width", <<c>>)
               [] cl = "BANG" -> Go(SetLast(ps, "tr", TRUE), "Width", <<>>)
               [] cl = "DOT" -> Go(ps, "FirstStyle", <<>>)
               [] cl = "RB" -> Go(ps, "Literal", <<>>)
               [] OTHER -> Err(ps))
      [] st = "Width" ->
            (CASE cl = "DIGIT" -> Go(ps, "Width", <<c>>)
               [] cl = "BANG" -> Go(SetLast(ps, "tr", TRUE), "Width", <<>>)
               [] cl = "DOT" -> Go(ps, "FirstStyle", <<>>)
               [] cl = "RB" -> Go(ps, "Literal", <<>>)
               [] OTHER -> Err(ps))
      [] st = "FirstStyle" ->
            (CASE cl = "SLASH" -> Go(ps, "AltStyle", <<>>)
               [] cl = "RB" -> Go(ps, "Literal", <<>>)
               [] OTHER -> Go(ps, "FirstStyle", <<c>>))
      [] st = "AltStyle" -> IF cl = "RB" THEN Go(ps, "Literal", <<>>) ELSE Go(ps, "AltStyle", <<c>>)
      [] OTHER -> ps                                      \* err / panic are absorbing

(* end of input *)
PFinish(ps) ==
    IF ps.st \in {"Literal", "DoubleClose"} /\ ps.buf # <<>> THEN [ps EXCEPT !.parts = Append(@, Lit(ps.buf)), !.buf = <<>>] ELSE ps

RECURSIVE PRun(_, _, _)
PRun(ps, s, i) == IF i > Len(s) \/ Halted(ps) THEN ps ELSE PRun(PStep(ps, s[i]), s, i + 1)
Parse(s) == LET ps == PRun(PInit, s, 1) IN
            IF Halted(ps) THEN [res |-> ps.st, parts |-> <<>>] ELSE [res |-> "ok", parts |-> PFinish(ps).parts]

(* abstraction used for the transition cover *)
BufKind(ps) == IF ps.buf = <<>> THEN "empty"
               ELSE IF ps.st = "Width" THEN (IF TooBig(ps.buf) THEN "big" ELSE "num")
               ELSE "text"
LastKind(ps) == IF ps.parts = <<>> THEN "none" ELSE ps.parts[Len(ps.parts)].k
=============================================================================
