---------------------------- MODULE MC_Estimator ----------------------------
(* Behaviour generator for C09: timed histories of updates, stalls, resets, *)
(* rewinds and queries.  Gaps from 1 ms to 3 days, step counts over many    *)
(* orders of magnitude; Mode "steady" keeps the true rate constant          *)
(* (steps = rate * gap) while the gaps vary.                                *)
EXTENDS U64, Json, TLC
CONSTANTS D, Mode, GapMs, StepSet, RatePerMs,
          BigStart,    \* TRUE: the position first jumps to 2^63 (then reset_eta): small steps far above 2^53
          NearEnd      \* TRUE: length 10^15, the position first jumps to 10^6 before the end (then reset_eta): the remaining work is tiny relative to the length
VARIABLES hist, n, pos, sinceReset, fin, done
vars == <<hist, n, pos, sinceReset, fin, done>>

Ns(ms) == MulSmall(MulSmall(FromSmall(ms), 1000), 1000)
Adv(ms) == [op |-> "adv", ns |-> Ns(ms)]
Q == [op |-> "query"]
Steps(k) == IF k = "1" THEN FromSmall(1) ELSE IF k = "e3" THEN FromSmall(1000) ELSE IF k = "e6" THEN FromSmall(1000000) ELSE MulSmall(FromSmall(1000000), 1000)

Lens == {MulSmall(MulSmall(FromSmall(1000000), 1000), 1000), MaxU64}      \* 10^12, u64::MAX
P63 == <<0, 0, 0, 0, 8>>
L15 == MulSmall(MulSmall(MulSmall(FromSmall(1000000), 1000), 1000), 1000)      \* 10^15
PNear == Sub(L15, FromSmall(1000000))
Init == /\ \E l \in (IF BigStart THEN {MaxU64} ELSE IF NearEnd THEN {L15} ELSE Lens \cup {Zero}) :
             hist = <<[op |-> "new", nolen |-> l = Zero, len |-> l]>>
                    \o (IF BigStart THEN <<Adv(1), [op |-> "upd", steps |-> P63], [op |-> "reset_eta"]>>
                        ELSE IF NearEnd THEN <<Adv(1), [op |-> "upd", steps |-> PNear], [op |-> "reset_eta"]>> ELSE <<>>)
        /\ n = 0 /\ pos = (IF BigStart THEN P63 ELSE IF NearEnd THEN PNear ELSE Zero) /\ sinceReset = FALSE /\ fin = FALSE /\ done = FALSE

(* one generator step = a few driver operations *)
Update == \E g \in GapMs :
            \E s \in (IF Mode = "steady" THEN {MulSmall(FromSmall(g), RatePerMs)} ELSE {Steps(k) : k \in StepSet}) :
              /\ hist' = hist \o <<Adv(g), [op |-> "upd", steps |-> s], Q>>
              /\ pos' = WrapAdd(pos, s) /\ sinceReset' = TRUE /\ UNCHANGED fin
Stall == \E g \in GapMs : hist' = hist \o <<Adv(g), Q>> /\ sinceReset' = TRUE /\ UNCHANGED <<pos, fin>>
Query == sinceReset /\ hist' = hist \o <<Q>> /\ UNCHANGED <<pos, sinceReset, fin>>
ResetEta == hist' = hist \o <<[op |-> "reset_eta"]>> /\ sinceReset' = FALSE /\ UNCHANGED <<pos, fin>>
Reset == hist' = hist \o <<[op |-> "reset"]>> /\ pos' = Zero /\ sinceReset' = FALSE /\ fin' = FALSE
Rewind == ~IsZero(pos) /\ \E to \in {Zero, DivMod(pos, 2).q \o <<0, 0, 0, 0, 0>>} :
             /\ Lt(to, pos)
             /\ hist' = hist \o <<[op |-> "rewind", to |-> Trunc64(to)]>> /\ pos' = Trunc64(to) /\ sinceReset' = FALSE /\ UNCHANGED fin
Finish == ~fin /\ sinceReset /\ hist' = hist \o <<[op |-> "finish"], Q>> /\ fin' = TRUE /\ UNCHANGED <<pos, sinceReset>>
Unset == hist' = hist \o <<[op |-> "unset_length"]>> /\ UNCHANGED <<pos, sinceReset, fin>>

Step == /\ n < D /\ ~fin
        /\ (Update \/ Stall \/ Query \/ (Mode # "steady" /\ (ResetEta \/ Reset \/ Rewind \/ Finish \/ Unset)) \/ (Mode = "steady" /\ (ResetEta \/ Rewind)))
        /\ n' = n + 1 /\ UNCHANGED done
Emit == /\ (n = D \/ fin) /\ ~done
        /\ PrintT(<<"REPLAY", ToJson([ops |-> hist])>>)
        /\ done' = TRUE /\ UNCHANGED <<hist, n, pos, sinceReset, fin>>
Next == Step \/ Emit
Spec == Init /\ [][Next]_vars
TypeOK == IsU64(pos)
=============================================================================
