--------------------------- MODULE Trace_Adaptors ---------------------------
(* MONITOR for C17: traces of the harness `adaptors` driver (scripted        *)
(* readers / writers / seekers / buffered readers, their tokio variants,     *)
(* iterators, streams, and the rayon plumbing) judged against Adaptors.tla.  *)
EXTENDS Adaptors, Json, IOUtils
Rec == ndJsonDeserialize(IOEnv.TRACE)
VARIABLES i, S, P, dead, bad, st
vars == <<i, S, P, dead, bad, st>>
St0 == [recs |-> 0, hists |-> 0, ops |-> 0, short |-> 0, errs |-> 0, pendings |-> 0, multi |-> 0, seeks |-> 0, consumes |-> 0, items |-> 0, finishes |-> 0, refinish |-> 0,
        lenient |-> 0, hints |-> 0, splits |-> 0, paritems |-> 0, leafends |-> 0, pools |-> 0, calls_differ |-> 0]
SNone == [pos |-> Zero, fin |-> FALSE, msg |-> "", haslen |-> FALSE, len |-> Zero, beh |-> "AndLeave", fm |-> ""]
PNone == [n |-> 0, c |-> 0, pos0 |-> Zero]
ParOps == {"split", "item", "items", "end", "done"}

SeqRule(S1, r) ==
    IF ~Transparent(r) THEN "Transparent"
    ELSE IF ~PosOK(S, S1, r) THEN (IF r.op \in SeekOps THEN "SeekOK" ELSE "PosOK")
    ELSE IF ~FinishOK(S1, r) THEN "FinishOK"
    ELSE IF ~HintOK(r) THEN "HintOK"
    ELSE ""
ParRule(P1, r) ==
    IF ~r.ok THEN "Script"
    ELSE IF ~ParItemOK(r) \/ ~ParEndOK(r) \/ ~r.same THEN "Transparent"
    ELSE IF ~ParNotEarly(P1, r) THEN "NotFinishedEarly"
    ELSE IF ~ParPosOK(P1, r) THEN "PosOK"
    ELSE ""
PoolRule(r) ==
    IF ~r.same THEN "Transparent"
    ELSE IF r.early THEN "NotFinishedEarly"
    ELSE IF r.pos # FromSmall(r.n) THEN "PosOK"
    ELSE ""

Has(calls, rr) == \E j \in 1..Len(calls) : calls[j].r = rr
Count(r, S1) ==
    [st EXCEPT !.recs = @ + 1, !.ops = @ + 1,
               !.short = @ + (IF \E j \in 1..Len(r.calls) : r.calls[j].f \in XferF /\ r.calls[j].r = "ok" /\ r.calls[j].k < r.calls[j].n THEN 1 ELSE 0),
               !.errs = @ + (IF Has(r.calls, "err") \/ Has(r.calls, "intr") THEN 1 ELSE 0),
               !.pendings = @ + (IF Has(r.calls, "pend") THEN 1 ELSE 0),
               !.multi = @ + (IF Len(r.calls) > 1 THEN 1 ELSE 0),
               !.seeks = @ + (IF r.op \in SeekOps /\ r.tret.k = "ok" THEN 1 ELSE 0),
               !.consumes = @ + (IF \E j \in 1..Len(r.calls) : r.calls[j].f = "consume" /\ r.calls[j].n > 0 THEN 1 ELSE 0),
               !.items = @ + (IF Has(r.calls, "item") THEN 1 ELSE 0),
               !.finishes = @ + (IF Has(r.calls, "none") /\ ~S.fin THEN 1 ELSE 0),
               !.refinish = @ + (IF Has(r.calls, "none") /\ S.fin THEN 1 ELSE 0),
               !.lenient = @ + (IF Lenient(r) THEN 1 ELSE 0),
               !.hints = @ + (IF r.op = "size_hint" THEN 1 ELSE 0),
               !.calls_differ = @ + (IF r.tcalls_same THEN 0 ELSE 1)]
ParCount(r) ==
    [st EXCEPT !.recs = @ + 1, !.ops = @ + 1, !.splits = @ + (IF r.op = "split" THEN 1 ELSE 0), !.paritems = @ + (IF r.op \in {"item", "items"} THEN 1 ELSE 0),
               !.leafends = @ + (IF r.op = "end" THEN 1 ELSE 0), !.pools = @ + (IF r.op = "pool" THEN 1 ELSE 0)]

Init == /\ i = 1 /\ S = SNone /\ P = PNone /\ dead = TRUE /\ bad = <<>> /\ st = St0
        /\ TLCSet(1, <<>>) /\ TLCSet(2, St0) /\ TLCSet(3, 1)
Verdict(r, rule) == IF rule = "" THEN bad ELSE Append(bad, [h |-> r.h, i |-> r.i, rule |-> rule, op |-> r.op, rec |-> r, want_pos |-> S.pos])
Next ==
    /\ i <= Len(Rec)
    /\ \E r \in {Rec[i]} :
       IF r.op = "init" THEN
            /\ S' = SNone /\ P' = PNone /\ dead' = FALSE /\ bad' = bad /\ st' = [st EXCEPT !.recs = @ + 1, !.hists = @ + 1]
       ELSE IF dead THEN UNCHANGED <<S, P, dead, bad>> /\ st' = [st EXCEPT !.recs = @ + 1]
       ELSE IF r.panic # "" THEN
            /\ UNCHANGED <<S, P>> /\ dead' = TRUE /\ st' = [st EXCEPT !.recs = @ + 1]
            /\ bad' = Append(bad, [h |-> r.h, i |-> r.i, rule |-> "NoPanic", op |-> r.op, rec |-> r, want_pos |-> S.pos])
       ELSE IF r.op \in {"new", "par_new"} THEN
            /\ S' = S0(r) /\ P' = IF r.op = "par_new" THEN P0(r) ELSE PNone
            /\ \E rule \in {IF r.pos = r.pos0 /\ ~r.fin THEN "" ELSE "PosOK"} : dead' = (rule # "") /\ bad' = Verdict(r, rule)
            /\ st' = [st EXCEPT !.recs = @ + 1]
       ELSE IF r.op \in ParOps THEN
            \E P1 \in {ParStep(P, r)} : \E rule \in {ParRule(P1, r)} :
            /\ P' = P1 /\ UNCHANGED S /\ dead' = (rule # "") /\ bad' = Verdict(r, rule) /\ st' = ParCount(r)
       ELSE IF r.op = "pool_skipped" THEN UNCHANGED <<S, P, dead, bad>> /\ st' = [st EXCEPT !.recs = @ + 1]       \* the driver could not create a thread pool
       ELSE IF r.op = "pool" THEN
            \E rule \in {PoolRule(r)} : UNCHANGED <<S, P>> /\ dead' = (rule # "") /\ bad' = Verdict(r, rule) /\ st' = ParCount(r)
       ELSE \E S1 \in {Step(S, r)} : \E rule \in {SeqRule(S1, r)} :
            /\ S' = [S1 EXCEPT !.pos = r.pos] /\ UNCHANGED P
            /\ dead' = (rule # "") /\ bad' = Verdict(r, rule) /\ st' = Count(r, S1)
    /\ i' = i + 1
    /\ TLCSet(1, bad') /\ TLCSet(2, st') /\ TLCSet(3, i')
Spec == Init /\ [][Next]_vars
Post == PrintT(<<"VERDICTS", ToJson([consumed |-> TLCGet(3) - 1, total |-> Len(Rec), bad |-> TLCGet(1), st |-> TLCGet(2)])>>)
=============================================================================
