-------------------------- MODULE Trace_Placeholders --------------------------
(* MONITOR for C11: follows the logical state of the bar through the         *)
(* recorded history (Placeholders!PApply) and judges                         *)
(*   after every call: the getters and the custom tracker's call counts      *)
(*   at every render : painted text = Term(key) over the facts logged at the *)
(*                     same frozen instant; facts tied to the model state;   *)
(*                     spinner by tick count / final string; the state a     *)
(*                     custom key was given when written; missing length =   *)
(*                     position                                              *)
(*   tickstr         : ProgressStyle::get_tick_str / get_final_tick_str      *)
EXTENDS Placeholders, Json, IOUtils
Rec == ndJsonDeserialize(IOEnv.TRACE)
VARIABLES i, P, dead, bad, st
vars == <<i, P, dead, bad, st>>
St0 == [recs |-> 0, hists |-> 0, renders |-> 0, values |-> 0, nolen_as_pos |-> 0, spinner |-> 0, spinner_final |-> 0, spinner_wrapped |-> 0, timed_nonzero |-> 0,
        finished |-> 0, max_pos |-> 0, len_lt_pos |-> 0, custom |-> 0, tracker_ticks |-> 0, tracker_resets |-> 0, tickstr |-> 0, calls |-> 0]

LenKeys == {"len", "human_len", "total_bytes", "decimal_total_bytes", "binary_total_bytes"}
TimedKeys == {"elapsed_precise", "elapsed", "per_sec", "bytes_per_sec", "eta_precise", "eta", "duration_precise", "duration"}
Framed(r) == Len(r.out) >= 2 /\ r.out[1] = 91 /\ r.out[Len(r.out)] = 93
Inner(r) == SubSeq(r.out, 2, Len(r.out) - 1)

GetOK(r, Q) == SeenOK(r.get, Q) /\ r.get.msg = Q.msg /\ r.get.prefix = Q.prefix
TrackerOK(r, Q) == Q.klo <= r.trk.ticks /\ r.trk.ticks <= Q.khi

(* verdict for a record, Q = the logical state after the operation *)
Rule(r, Q) ==
    IF r.panic # "" THEN "NoPanic"
    ELSE IF r.op = "tickstr" THEN
        (IF ~TickStrOK(r.got.tick, r.idx, Q.ts) THEN "TickStrOK" ELSE IF ~FinalStrOK(r.got.fin, Q.ts) THEN "FinalStrOK" ELSE "")
    ELSE IF ~GetOK(r, Q) THEN "StateOK"
    ELSE IF ~TrackerOK(r, Q) THEN "TrackerTicked"
    ELSE IF r.trk.resets # Q.resets THEN "TrackerReset"
    ELSE IF r.op \in {"tick", "ticks"} /\ ~(r.trk.tick_saw.pos = Q.L.pos /\ r.trk.tick_saw.haslen = Q.L.has /\ (Q.L.has => r.trk.tick_saw.len = Q.L.len)) THEN "TrackerState"
    ELSE IF r.op # "render" THEN ""
    ELSE IF r.nstr < 1 THEN "Painted"
    ELSE IF ~Framed(r) THEN "FrameOK"
    ELSE IF ~SeenOK(r.seen, Q) THEN "WriteStateOK"
    ELSE IF ~FactsOK(r.f, Q) THEN "FactsOK"
    ELSE IF r.key = "spinner" THEN (IF SpinnerOK(Inner(r), Q) THEN "" ELSE "SpinnerOK")
    ELSE IF r.key = "wide_msg" THEN (IF RStrip(Inner(r)) = Q.msg THEN "" ELSE "ValueOK")
    ELSE IF Inner(r) = Term(r.key, r.f, Q.L.has) THEN ""
    ELSE IF r.key \in LenKeys /\ ~Q.L.has THEN "NoLenAsPos"
    ELSE "ValueOK"

B2(x) == IF x THEN 1 ELSE 0
Count(s, r, Q) ==
    IF r.op = "render" THEN
        [s EXCEPT !.recs = @ + 1, !.renders = @ + 1, !.values = @ + B2(r.key \notin {"spinner", "wide_msg"}),
                  !.nolen_as_pos = @ + B2(r.key \in LenKeys /\ ~Q.L.has),
                  !.spinner = @ + B2(r.key = "spinner"), !.spinner_final = @ + B2(r.key = "spinner" /\ Q.L.fin),
                  !.spinner_wrapped = @ + B2(r.key = "spinner" /\ ~Q.L.fin /\ Q.tlo >= NTs(Q) - 1),
                  !.timed_nonzero = @ + B2(r.key \in TimedKeys /\ r.t # Zero),
                  !.finished = @ + B2(Q.L.fin), !.max_pos = @ + B2(Q.L.pos = MaxU64), !.len_lt_pos = @ + B2(Q.L.has /\ Lt(Q.L.len, Q.L.pos)),
                  !.custom = @ + B2(r.key = "ctr")]
    ELSE IF r.op = "tickstr" THEN [s EXCEPT !.recs = @ + 1, !.tickstr = @ + 1]
    ELSE [s EXCEPT !.recs = @ + 1, !.calls = @ + 1, !.tracker_ticks = @ + B2(r.op \in {"tick", "ticks"}), !.tracker_resets = @ + B2(r.op = "reset")]

Init == /\ i = 1 /\ P = P0 /\ dead = TRUE /\ bad = <<>> /\ st = St0
        /\ TLCSet(1, <<>>) /\ TLCSet(2, St0) /\ TLCSet(3, 1)
Next ==
    /\ i <= Len(Rec)
    /\ \E r \in {Rec[i]} :
       IF r.op = "init" THEN /\ P' = P0 /\ dead' = FALSE /\ bad' = bad /\ st' = [st EXCEPT !.recs = @ + 1, !.hists = @ + 1]
       ELSE IF dead THEN UNCHANGED <<P, dead, bad>> /\ st' = [st EXCEPT !.recs = @ + 1]
       ELSE \E Q \in {IF r.op = "new" THEN PInit(r) ELSE PApply(P, r)} : \E rule \in {Rule(r, Q)} :
            /\ P' = Q
            /\ dead' = (rule # "")
            /\ bad' = IF rule = "" THEN bad ELSE Append(bad, [h |-> r.h, i |-> r.i, rule |-> rule, op |-> IF r.op = "render" THEN r.key ELSE r.op])
            /\ st' = Count(st, r, Q)
    /\ i' = i + 1
    /\ TLCSet(1, bad') /\ TLCSet(2, st') /\ TLCSet(3, i')
Spec == Init /\ [][Next]_vars
Post == PrintT(<<"VERDICTS", ToJson([consumed |-> TLCGet(3) - 1, total |-> Len(Rec), bad |-> TLCGet(1), st |-> TLCGet(2)])>>)
=============================================================================
