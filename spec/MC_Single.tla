------------------------------ MODULE MC_Single ------------------------------
(***************************************************************************)
(* DESIGN-LEVEL check: the implementation-shaped model of the single-bar   *)
(* draw path (DrawTarget.tla: last_line_count, cursor flag, filler,        *)
(* text-only newline, height cut) satisfies the Screen contract for every  *)
(* history of the generator alphabet up to depth D (states are identified  *)
(* by contract state + draw-target state + terminal, so the search goes    *)
(* much deeper than the exhaustive replay families), and its transitions   *)
(* are printed as histories for replay on the real code.                   *)
(***************************************************************************)
EXTENDS MC_Screen, DrawTarget

CONSTANT MaxLog        \* log texts per history (the log only grows, so it bounds the state space)
VARIABLE d
svars == <<S, hist, nlog, done, I, d>>

NoDraw == {"set_style", "restyle", "copy_style", "clone", "drop_one", "reset_eta", "reset_elapsed", "is_hidden", "downgrade", "upgrade"}

RECURSIVE WriteLines(_, _, _)
WriteLines(t, ls, j) == IF j > Len(ls) THEN t ELSE WriteLines(Line(t, ls[j]), ls, j + 1)

(* calls whose draw is forced; every draw of a finished bar is forced, too (BarState::draw) *)
ForcedOps == {"println", "suspend", "finish", "finish_with_message", "finish_and_clear", "abandon", "abandon_with_message", "finish_using_style",
              "force_draw", "set_tab_width", "drop"}
WithLim(r, l) == [t |-> r.t, llc |-> r.llc, atEnd |-> r.atEnd, lim |-> l]

(* n ordinary draw requests of the same frame at the same instant (a burst of ticks) *)
RECURSIVE BurstDraw(_, _, _, _, _)
BurstDraw(dd, frame, k, force, now) ==
    IF k = 0 THEN dd
    ELSE LET a == IF dd.lim.on /\ ~force THEN Allow(dd.lim, now) ELSE [ok |-> TRUE, l |-> dd.lim]
         IN BurstDraw(IF a.ok THEN WithLim(DrawToTerm(dd, frame, FALSE), a.l) ELSE dd, frame, k - 1, force, now)

(* the items of an iterator: item k shows the position advanced by k *)
RECURSIVE IterDraw(_, _, _, _, _, _)
IterDraw(dd, B0, k, n, force, now) ==
    IF k > n THEN dd
    ELSE IterDraw(BurstDraw(dd, ToBar(Render([B0 EXCEPT !.pos = B0.pos + k])), 1, force, now), B0, k + 1, n, force, now)

(* what the library does to the terminal for operation o (S0 before, S1 after, both contract states); o.t = time in microseconds *)
ImplStep(dd, o, S0, S1) ==
    LET b == o.b
        vis == b \in S1.ids /\ S0.bars[b].vis
        frame == ToBar(Render(S1.bars[b]))
    IN IF o.op = "new" THEN [dd EXCEPT !.lim = IF o.target = "spy_hz" /\ o.hz > 0 THEN LimNew(o.hz, o.t) ELSE NoLim]
       ELSE IF o.op \in NoDraw \/ ~vis THEN dd
       ELSE IF o.op = "println" THEN WithLim(DrawToTerm(dd, ToText(TextLines(o.m)) \o frame, FALSE), dd.lim)
       ELSE IF o.op = "suspend" THEN
            LET d1 == DrawToTerm(dd, <<>>, FALSE)
                d2 == [d1 EXCEPT !.t = WriteLines(d1.t, Split(o.m), 1)]
            IN WithLim(DrawToTerm(d2, frame, FALSE), dd.lim)
       ELSE IF o.op = "drop" THEN (IF S0.bars[b].fin = "no" THEN WithLim(DrawToTerm(dd, frame, FALSE), dd.lim) ELSE dd)
       ELSE IF o.op = "iter" THEN
            LET d1 == IterDraw(dd, S0.bars[b], 1, o.n, S0.bars[b].fin # "no", o.t)
            IN IF S0.bars[b].fin = "no" THEN WithLim(DrawToTerm(d1, frame, FALSE), d1.lim) ELSE d1
       ELSE IF o.op = "burst" THEN BurstDraw(dd, frame, o.n, S1.bars[b].fin # "no", o.t)
       ELSE IF o.op \in ForcedOps \/ S1.bars[b].fin # "no" \/ ~dd.lim.on THEN WithLim(DrawToTerm(dd, frame, FALSE), dd.lim)
       ELSE LET a == Allow(dd.lim, o.t) IN
            IF a.ok THEN WithLim(DrawToTerm(dd, frame, FALSE), a.l) ELSE dd       \* a refused request changes nothing

RECURSIVE BaseTerm(_, _)
BaseTerm(t, j) == IF j >= Base THEN t ELSE BaseTerm(Line(t, <<36, 48 + j>>), j + 1)

SInitD == /\ Init
          /\ d = [t |-> BaseTerm(TInit(W, H), 0), llc |-> 0, atEnd |-> FALSE, lim |-> NoLim]

SStep == /\ Len(hist) < D /\ ~Dead /\ ~done
         /\ \E o \in {x \in OpsNow : x.op \in {"println", "suspend"} => nlog < MaxLog} : \E S1 \in {Advance(o)} :
               /\ S' = S1
               /\ d' = ImplStep(d, Full(o), S, S1)
               /\ hist' = Append(hist, o)
               /\ nlog' = nlog + (IF o.op \in {"println", "suspend", "mp_println", "mp_suspend"} THEN 1 ELSE 0)
               /\ (Cover => PrintT(<<"REPLAY", ToJson([cfg |-> Cfg, ops |-> Append(hist, o)])>>))
         /\ UNCHANGED <<done, I>>
SNext == SStep
SSpec == SInitD /\ [][SNext]_svars

SView == <<S, d, nlog>>

(* base rows are log lines for the contract *)
WithBase(S1) == [S1 EXCEPT !.above = [j \in 1..Base |-> LogItem(<<36, 48 + j - 1>>)] \o S1.above]
Cand == [above |-> WithBase(S).above, order |-> S.order, V |-> {}, reg |-> 0]

(* the design satisfies the contract *)
ScreenMatches == Shows(WithBase(S), d.t, Cand, FALSE, 0)
CursorMatches == IsCut(WithBase(S), Cand) \/ NextPrint(d.t) = <<ExpRows(WithBase(S), Cand, FALSE, 0) + 1, 0>>
LlcOK == d.llc >= 0
=============================================================================
