--------------------------- MODULE Trace_SyncConf ---------------------------
(***************************************************************************)
(* TRACE VALIDATION for Sync.tla: every run of a program on the real       *)
(* library under the controlled scheduler logs one event per instrumented  *)
(* primitive (lock / read / write acquisitions and releases, notify, wait  *)
(* outcomes, spawn, start, join, exit).  A run CONFORMS when its events,   *)
(* in order, are a behaviour of Sync.tla for the same program: each        *)
(* acquisition-type event must be the parking token the model has on top   *)
(* of that thread's stack, it must be enabled in the model state, and the  *)
(* model moves to the successor (the non-parking tokens - releases, flag   *)
(* updates - are run by the model itself and the logged releases are       *)
(* checked against the model's lock owners afterwards).                    *)
(* Conformance of all replayed runs is what carries TLC's exhaustive       *)
(* NoDeadlock / NoTimeoutDependence result for Sync.tla over to the code.  *)
(* It is reported in the evidence; it is not a verdict on the property.    *)
(***************************************************************************)
EXTENDS Sync, IOUtils
Rec == ndJsonDeserialize(IOEnv.TRACE)
VARIABLES i, res
cvars == <<G, hist, done, i, res>>

ThreadOf(t) == IF t < 100 THEN <<"c", t + 1>> ELSE <<"t", t - 100 + 1>>
Acquire == {"Lock", "Write", "Read", "Spawn", "Start", "Join", "CvNotify", "CvWake", "CvTimeout"}
TokOf(e) == CASE e.k = "Lock" /\ e.o = "K" -> "LK"
              [] e.k = "Lock" /\ e.o = "S" -> "LS"
              [] e.k = "Lock" /\ e.o = "F" -> "LF"
              [] e.k = "Write" -> "WM"
              [] e.k = "Read" -> "RM"
              [] e.k = "Spawn" -> "SPAWN"
              [] e.k = "Start" -> "START"
              [] e.k = "Join" -> "JOIN"
              [] e.k = "CvNotify" -> "NOTIFY"
              [] e.k \in {"CvWake", "CvTimeout"} -> "WAIT"
              [] OTHER -> "?"

Top(g, x) == IF Stack(g, x) = <<>> THEN "-" ELSE Head(Stack(g, x)).k

(* a thread that has not started yet starts with its first event *)
Begun(g, x) == IF Top(g, x) = "BEGIN" THEN CHOOSE y \in StepOf(g, x) : TRUE ELSE g

(* the lock owners of the model after an event agree with the event *)
Holds(g, e) ==
    LET me == Owner(ThreadOf(e.t)) IN
    CASE e.k = "Lock" /\ e.o = "K" -> g.K = me
      [] e.k = "Lock" /\ e.o = "S" -> g.S = me
      [] e.k = "Write" -> g.M = me
      [] e.k = "Read" -> me \in g.MR
      [] OTHER -> TRUE

(* one event: [ok, g, why] *)
Conf1(g0, e) ==
    LET x == ThreadOf(e.t) IN
    IF x[1] = "c" /\ x[2] > Len(Programs) THEN [ok |-> FALSE, g |-> g0, why |-> <<"unknown thread", e.t>>]
    ELSE IF x[1] = "t" /\ (x[2] > MaxTickers \/ g0.tstate[x[2]] = "none") THEN [ok |-> FALSE, g |-> g0, why |-> <<"ticker not spawned in the model", e.t, e.k>>]
    ELSE
    LET g == Begun(g0, x) IN
    IF e.k \notin Acquire THEN
        (* releases and marks: performed by the model's own non-parking run; a release must find the model not holding *)
        IF e.k = "Unlock" /\ e.o = "S" /\ g.S = Owner(x) THEN [ok |-> FALSE, g |-> g, why |-> <<"code released S, the model still holds it", e.t>>]
        ELSE IF e.k = "Unlock" /\ e.o = "K" /\ g.K = Owner(x) THEN [ok |-> FALSE, g |-> g, why |-> <<"code released K, the model still holds it", e.t>>]
        ELSE [ok |-> TRUE, g |-> g, why |-> <<>>]
    ELSE IF Top(g, x) = "LN" /\ e.k = "Lock" /\ e.o = "S" THEN [ok |-> TRUE, g |-> CHOOSE y \in StepOf(g, x) : TRUE, why |-> <<>>]     \* the state lock of a bar the thread made itself
    ELSE IF Top(g, x) # TokOf(e) THEN [ok |-> FALSE, g |-> g, why |-> <<"model expects", Top(g, x), "code did", e.k, e.o, "thread", e.t, "in", e.call>>]
    ELSE LET succ == IF e.k = "CvWake" THEN WaitWake(g, x) ELSE IF e.k = "CvTimeout" THEN WaitTimeout(g, x) ELSE StepOf(g, x) IN
         IF succ = {} THEN [ok |-> FALSE, g |-> g, why |-> <<"not enabled in the model", e.k, e.o, "thread", e.t>>]
         ELSE LET g2 == CHOOSE y \in succ : TRUE IN
              [ok |-> TRUE, g |-> g2, why |-> <<>>]

RECURSIVE ConfFrom(_, _, _)
ConfFrom(g, steps, j) ==
    IF j > Len(steps) THEN [ok |-> TRUE, at |-> j, g |-> g, why |-> <<>>]
    ELSE LET r == Conf1(g, steps[j]) IN
         IF ~r.ok THEN [ok |-> FALSE, at |-> j, g |-> r.g, why |-> r.why]
         ELSE ConfFrom(r.g, steps, j + 1)

(* a whole run *)
ConfRun(r) ==
    LET c == ConfFrom(G0, r.steps, 1) IN
    IF ~c.ok THEN [h |-> r.h, ok |-> FALSE, at |-> c.at, n |-> Len(r.steps), why |-> c.why]
    ELSE IF r.result = "ok" /\ ~AllDone(c.g) THEN [h |-> r.h, ok |-> FALSE, at |-> Len(r.steps) + 1, n |-> Len(r.steps), why |-> <<"the run ended, the model has unfinished threads">>]
    ELSE [h |-> r.h, ok |-> TRUE, at |-> Len(r.steps), n |-> Len(r.steps), why |-> <<>>]

R0 == [runs |-> 0, conform |-> 0, events |-> 0, first |-> <<>>]
ConfInit == G = G0 /\ hist = <<>> /\ done = FALSE /\ i = 1 /\ res = R0 /\ TLCSet(1, R0)
ConfNext ==
    /\ i <= Len(Rec)
    /\ \E c \in {ConfRun(Rec[i])} :
          res' = [runs |-> res.runs + 1, conform |-> res.conform + (IF c.ok THEN 1 ELSE 0), events |-> res.events + c.n,
                  first |-> IF c.ok \/ Len(res.first) >= 5 THEN res.first ELSE Append(res.first, [h |-> c.h, at |-> c.at, why |-> ToString(c.why)])]
    /\ i' = i + 1
    /\ TLCSet(1, res')
    /\ UNCHANGED <<G, hist, done>>
ConfSpec == ConfInit /\ [][ConfNext]_cvars
ConfPost == PrintT(<<"CONFORMANCE", ToJson(TLCGet(1))>>)
=============================================================================
