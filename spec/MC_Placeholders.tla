-------------------------- MODULE MC_Placeholders --------------------------
(* Behaviour generator for C11: a bar is created in a boundary state       *)
(* (length unknown / 0 / 1 / 3 / MAX, position 0 / 1 / 5 / MAX), D         *)
(* operations follow (ticks, position / length / message / prefix changes, *)
(* finish / abandon / reset, clock advances), then every documented key is *)
(* rendered and the public tick-string functions are queried.              *)
EXTENDS Placeholders, Json
CONSTANTS D, NT, Lens, Poss,
          Hid      \* subset of BOOLEAN: TRUE = the bar is created with a hidden target and given the terminal (set_draw_target) only before the renders
VARIABLES hist, n, done
vars == <<hist, n, done>>

U(k) == IF k = "MAX" THEN MaxU64 ELSE IF k = "0" THEN Zero ELSE IF k = "1" THEN FromSmall(1) ELSE IF k = "2" THEN FromSmall(2)
        ELSE IF k = "3" THEN FromSmall(3) ELSE IF k = "5" THEN FromSmall(5) ELSE IF k = "8" THEN FromSmall(8) ELSE IF k = "200" THEN FromSmall(200) ELSE IF k = "e6" THEN FromSmall(1000000) ELSE Zero
Ms(ms) == MulSmall(MulSmall(FromSmall(ms), 1000), 1000) \o <<0, 0>>
Ns5(x) == <<Limb(x, 1), Limb(x, 2), Limb(x, 3), Limb(x, 4), Limb(x, 5)>>

TS == [j \in 1..NT |-> IF j = NT THEN <<90, 90>> ELSE <<96 + j, 48 + j>>]        \* "a1", "b2", ..., final "ZZ"
MsgA == <<104, 233, 1000>>                                                         \* "h", e-acute, one CJK glyph
News == { [op |-> "new", nolen |-> l = "none", len |-> U(l), pos0 |-> U(p), m0 |-> <<109, 48>>, p0 |-> <<>>, ts |-> TS, hid0 |-> hd] : l \in Lens, p \in Poss, hd \in Hid }

Ops == { [op |-> "tick"] } \cup { [op |-> "ticks", k |-> k] : k \in {NT - 1, NT} }
       \cup { [op |-> "inc", n |-> U(a)] : a \in {"1", "MAX"} }
       \cup { [op |-> "set_position", n |-> U(a)] : a \in {"0", "2", "MAX"} }
       \cup { [op |-> "set_length", n |-> U(a)] : a \in {"0", "3", "e6", "MAX"} }
       \cup { [op |-> "unset_length"] }
       \cup { [op |-> "set_message", m |-> MsgA], [op |-> "set_message", m |-> <<>>], [op |-> "set_prefix", m |-> <<112, 58>>] }
       \cup { [op |-> "finish"], [op |-> "abandon"], [op |-> "finish_with_message", m |-> <<100, 111, 110, 101>>], [op |-> "reset"] }
       \cup { [op |-> "adv", ns |-> Ns5(Ms(ms))] : ms \in {1, 1000, 90000, 3700000, 259200000} }

Renders == [j \in 1..Len(Keys) |-> [op |-> "render", key |-> Keys[j]]]
TickQs == << [op |-> "tickstr", idx |-> Zero], [op |-> "tickstr", idx |-> FromSmall(1)], [op |-> "tickstr", idx |-> FromSmall(NT - 2)],
                 [op |-> "tickstr", idx |-> FromSmall(NT - 1)], [op |-> "tickstr", idx |-> FromSmall(NT)], [op |-> "tickstr", idx |-> <<0, 0, 4, 0, 0>>],
                 [op |-> "tickstr", idx |-> MaxU64] >>

Init == hist \in {<<o>> : o \in News} /\ n = 0 /\ done = FALSE
Step == /\ n < D /\ ~done
        /\ \E o \in Ops : hist' = Append(hist, o)
        /\ n' = n + 1 /\ UNCHANGED done
Emit == /\ n = D /\ ~done
        /\ PrintT(<<"REPLAY", ToJson([ops |-> hist \o (IF hist[1].hid0 THEN << [op |-> "show"] >> ELSE <<>>) \o Renders \o TickQs])>>)
        /\ done' = TRUE /\ UNCHANGED <<hist, n>>
Next == Step \/ Emit
Spec == Init /\ [][Next]_vars
TypeOK == n <= D
=============================================================================
