---------------------------- MODULE Trace_Logical ----------------------------
(* MONITOR for C07: position()/length()/is_finished() after every call     *)
(* against Logical!LApply on exact u64 arithmetic, fraction() in [0,1] and  *)
(* close to pos/len, the rendered {pos} {len} {percent}, no panic.          *)
EXTENDS Logical, Json, IOUtils
Rec == ndJsonDeserialize(IOEnv.TRACE)
VARIABLES i, L, dead, bad, st
vars == <<i, L, dead, bad, st>>
St0 == [recs |-> 0, hists |-> 0, wraps |-> 0, sats |-> 0, fracs |-> 0, shown |-> 0]

Rule(L1, r) ==
    IF r.panic # "" THEN "NoPanic"
    ELSE IF ~r.get.has THEN ""
    ELSE IF r.get.pos # L1.pos THEN "PosOK"
    ELSE IF r.get.haslen # L1.has \/ (L1.has /\ r.get.len # L1.len) THEN "LenOK"
    ELSE IF r.get.fin # L1.fin THEN "FinOK"
    ELSE IF r.frac # -1 /\ (r.frac = -2 \/ ~FracOK(L1, r.frac)) THEN "FractionOK"
    ELSE IF r.frac >= 0 /\ ~FracNear(L1, r.frac) THEN "FractionNear"
    ELSE IF ~ShownOK(L1, r.shown, r.frac) THEN "RenderOK"
    ELSE ""

Init == /\ i = 1 /\ L = LInit(FALSE, Zero) /\ dead = TRUE /\ bad = <<>> /\ st = St0
        /\ TLCSet(1, <<>>) /\ TLCSet(2, St0) /\ TLCSet(3, 1)
Next ==
    /\ i <= Len(Rec)
    /\ \E r \in {Rec[i]} :
       IF r.op = "init" THEN
            /\ L' = LInit(FALSE, Zero) /\ dead' = FALSE /\ bad' = bad /\ st' = [st EXCEPT !.recs = @ + 1, !.hists = @ + 1]
       ELSE IF dead THEN UNCHANGED <<L, dead, bad>> /\ st' = [st EXCEPT !.recs = @ + 1]
       ELSE IF r.op = "new" THEN
            /\ L' = LInitF(~r.nolen, IF r.nolen THEN Zero ELSE r.len, r.fin) /\ UNCHANGED <<dead, bad>> /\ st' = [st EXCEPT !.recs = @ + 1]
       ELSE \E x \in {[L1 |-> LApply(L, r)]} : \E rule \in {Rule(x.L1, r)} :
            /\ L' = x.L1
            /\ dead' = (rule # "")
            /\ bad' = IF rule = "" THEN bad ELSE Append(bad, [h |-> r.h, i |-> r.i, rule |-> rule, op |-> r.op])
            /\ st' = [st EXCEPT !.recs = @ + 1,
                                !.wraps = @ + (IF r.op \in {"inc", "dec"} /\ (IF r.op = "inc" THEN Lt(x.L1.pos, L.pos) ELSE Lt(L.pos, x.L1.pos)) THEN 1 ELSE 0),
                                !.sats = @ + (IF r.op \in {"inc_length", "dec_length"} /\ L.has /\ (x.L1.len = MaxU64 \/ IsZero(x.L1.len)) THEN 1 ELSE 0),
                                !.fracs = @ + (IF r.frac >= 0 THEN 1 ELSE 0), !.shown = @ + (IF r.shown # <<>> THEN 1 ELSE 0)]
    /\ i' = i + 1
    /\ TLCSet(1, bad') /\ TLCSet(2, st') /\ TLCSet(3, i')
Spec == Init /\ [][Next]_vars
Post == PrintT(<<"VERDICTS", ToJson([consumed |-> TLCGet(3) - 1, total |-> Len(Rec), bad |-> TLCGet(1), st |-> TLCGet(2)])>>)
=============================================================================
