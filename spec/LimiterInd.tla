----------------------------- MODULE LimiterInd -----------------------------
(***************************************************************************)
(* Unbounded-time argument for the window law of the token bucket          *)
(* (Limiter.tla without its history and clipping), for Apalache:           *)
(* IndInv is inductive (IndInit => IndInv at length 0; IndInv /\ Next =>   *)
(* IndInv' at length 1 from IndInit == cap \in 0..B /\ since \in Nat /\ G \in Nat /\ sa \in Int /\ IndInv) and implies WindowI, for    *)
(* arbitrary gaps (any natural number of time units), I = 4000, B = 20.    *)
(*   J   G - sa + cap*I + since <= (B+1)*I   (G decayed by the time since  *)
(*       the last allowed request, plus the tokens and the banked time,    *)
(*       never exceeds a full bucket plus one)                             *)
(*   K   sa <= since                          (prev is never later than    *)
(*       the last allowed request)                                         *)
(***************************************************************************)
EXTENDS Integers

I == 4000
B == 20

VARIABLES
    \* @type: Int;
    cap,
    \* @type: Int;
    since,
    \* @type: Int;
    G,
    \* @type: Int;
    sa

Init == cap = B /\ since = 0 /\ G = 0 /\ sa = -1

Request(gap) ==
    LET elapsed == since + gap
        deny == cap = 0 /\ elapsed < I
        refill == cap + (elapsed \div I) - 1
    IN IF deny
       THEN /\ cap' = cap /\ since' = elapsed /\ G' = G
            /\ sa' = IF sa = -1 THEN -1 ELSE sa + gap
       ELSE /\ cap' = IF refill >= B THEN B ELSE refill
            /\ since' = IF refill >= B THEN 0 ELSE elapsed % I
            /\ G' = (IF sa = -1 \/ G - (sa + gap) < 0 THEN 0 ELSE G - (sa + gap)) + I
            /\ sa' = 0

Next == \E gap \in Nat : Request(gap)

TypeOK == cap \in 0..B /\ since >= 0 /\ G >= 0 /\ sa >= -1
K == sa <= since
J == (IF sa = -1 THEN G ELSE G - sa) + cap * I + since <= (B + 1) * I
NoneYet == sa = -1 => (G = 0 /\ cap = B /\ since = 0)
IndInv == TypeOK /\ K /\ J /\ NoneYet
WindowI == G <= (B + 1) * I
IndInit == cap \in 0..B /\ since \in Nat /\ G \in Nat /\ sa \in Int /\ IndInv
=============================================================================
