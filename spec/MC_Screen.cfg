SPECIFICATION Spec
CONSTANTS
 W = 3
 H = 4
 Multi = FALSE
 MaxBars = 1
 D = 4
 BarOps = {"tick", "set_message", "println", "finish", "finish_and_clear", "drop"}
 MpOps = {}
 MsgShapes = {"e", "a", "W", "W1", "nlA", "Anl"}
 TextShapes = {"T", "TW", "TW1", "e"}
 Tpls = {"M"}
 Fins = {"AndLeave", "AndClear"}
 Hz = 0
 DTs = {0}
 Base = 1
 Align = "top"
INVARIANT TypeOK
CHECK_DEADLOCK FALSE
