------------------------------ MODULE MC_Multi ------------------------------
(***************************************************************************)
(* DESIGN-LEVEL check for MultiProgress: an implementation-shaped model of *)
(* MultiState (multi.rs: ordering with zombie flags, orphan lines,         *)
(* zombie_lines_count, draw with head-zombie reaping, mark_zombie, clear,  *)
(* suspend, remove_idx) on top of DrawTarget!DrawToTerm, checked against   *)
(* the Screen contract for every history of the generator alphabet: after  *)
(* every painting operation some candidate layout of the contract          *)
(* (Screen!Matches) must explain the modelled terminal, and the contract   *)
(* state continues from the chosen candidate exactly as in Trace_Screen.   *)
(*                                                                         *)
(* ZombieAccounting = "repaired" is the code after fix commits af6a66a,    *)
(* 4080a05 (lines of reaped bars are counted after the draw that reaps     *)
(* them, only when they are on screen, and ProgressBar::println clears     *)
(* them like MultiProgress::println); "pinned" is the original             *)
(* book-keeping, with which TLC finds D2/D3 (MC_Multi_pinned.cfg).         *)
(***************************************************************************)
EXTENDS MC_Screen, DrawTarget

CONSTANTS ZombieAccounting, MaxLog
VARIABLES m, ok
mvars == <<S, hist, nlog, done, I, m, ok>>

(* m = [ord, lines, orphans, zl, d]: ord = <<[b, z]>>, lines[b] = member draw state (sequence of bar lines, <<>> before the first draw) *)
MM0 == [ord |-> <<>>, lines |-> <<>>, orphans |-> <<>>, zl |-> 0, d |-> [t |-> TInit(W, H), llc |-> 0, atEnd |-> FALSE], lim |-> NoLim,
        now |-> 0]        \* design level: the time of the last operation in microseconds (the trace monitors take the time from the records)

RowsL(ls) == SumCodeRows(ToBar(ls), 1, W)
MemberLines(mm, b) == IF b \in DOMAIN mm.lines THEN mm.lines[b] ELSE <<>>
RECURSIVE Frame(_, _, _)
Frame(mm, o, j) == IF j > Len(o) THEN <<>> ELSE ToBar(MemberLines(mm, o[j].b)) \o Frame(mm, o, j + 1)
RECURSIVE HeadRows(_, _)
HeadRows(mm, o) == IF o # <<>> /\ o[1].z THEN RowsL(MemberLines(mm, o[1].b)) + HeadRows(mm, Tail(o)) ELSE 0
RECURSIVE DropHeads(_)
DropHeads(o) == IF o # <<>> /\ o[1].z THEN DropHeads(Tail(o)) ELSE o

(* MultiState::draw(force, extra_lines, now): text (extra lines, orphan lines) forces the draw; an ordinary request is *)
(* performed only if the limiter of the target allows it, and a refused one changes nothing (no zombie is reaped)    *)
MDraw(mm, extra, force, now) ==
    LET adj == HeadRows(mm, mm.ord)
        zlPinned == mm.zl + adj                                  \* pinned: counted before the draw
        hasText == extra # <<>> \/ (ZombieAccounting = "repaired" /\ mm.orphans # <<>>)
        zl0 == IF ZombieAccounting = "pinned" THEN zlPinned ELSE mm.zl
        d0 == IF hasText THEN [mm.d EXCEPT !.llc = @ + zl0] ELSE mm.d
        zl1 == IF hasText THEN 0 ELSE zl0
        lines == ToText(extra) \o ToText(mm.orphans) \o Frame(mm, mm.ord, 1)
        d1 == DrawToTerm(d0, lines, S.align = "bottom")
        keepNow == IF ZombieAccounting = "pinned" THEN extra = <<>> ELSE ~hasText
        d2 == IF keepNow THEN [d1 EXCEPT !.llc = IF @ >= adj THEN @ - adj ELSE 0] ELSE d1
        zl2 == IF ZombieAccounting = "repaired" /\ keepNow THEN zl1 + adj ELSE zl1
        a == IF mm.lim.on /\ ~force /\ extra = <<>> /\ mm.orphans = <<>> THEN Allow(mm.lim, now) ELSE [ok |-> TRUE, l |-> mm.lim]
    IN IF ~a.ok THEN mm
       ELSE [mm EXCEPT !.ord = DropHeads(mm.ord), !.orphans = <<>>, !.zl = zl2, !.d = d2, !.lim = a.l]

MClear(mm) ==
    LET d0 == [mm.d EXCEPT !.llc = @ + mm.zl] IN [mm EXCEPT !.zl = 0, !.d = DrawToTerm(d0, <<>>, FALSE)]

MZombie(mm, b) ==
    IF mm.ord # <<>> /\ mm.ord[1].b = b
    THEN LET r == RowsL(MemberLines(mm, b))
             kept == IF ZombieAccounting = "repaired" THEN Min(r, mm.d.llc) ELSE r
         IN [mm EXCEPT !.ord = Tail(mm.ord), !.zl = @ + kept, !.d.llc = IF @ >= r THEN @ - r ELSE 0]
    ELSE [mm EXCEPT !.ord = [j \in 1..Len(mm.ord) |-> IF mm.ord[j].b = b THEN [b |-> b, z |-> TRUE] ELSE mm.ord[j]]]

SetLines(mm, b, ls) == [mm EXCEPT !.lines = (b :> ls) @@ mm.lines]
RECURSIVE UserLines(_, _, _)
UserLines(t, ls, j) == IF j > Len(ls) THEN t ELSE UserLines(Line(t, ls[j]), ls, j + 1)

MForced == {"finish", "finish_with_message", "finish_and_clear", "abandon", "abandon_with_message", "finish_using_style", "force_draw", "set_tab_width"}
RECURSIVE MBurst(_, _, _, _)
MBurst(mm, k, force, now) == IF k = 0 THEN mm ELSE MBurst(MDraw(mm, <<>>, force, now), k - 1, force, now)

(* the items of an iterator: item k shows the position advanced by k *)
RECURSIVE MIter(_, _, _, _, _, _, _)
MIter(mm, b, B0, k, n, force, now) ==
    IF k > n THEN mm
    ELSE MIter(MDraw(SetLines(mm, b, Render([B0 EXCEPT !.pos = B0.pos + k])), <<>>, force, now), b, B0, k + 1, n, force, now)

MStep(mm, o, S0, S1) ==
    LET b == o.b
        member == b # 0 /\ \E j \in 1..Len(mm.ord) : mm.ord[j].b = b
        nb == [b |-> b, z |-> FALSE]
        fresh == SetLines(mm, b, Render(S1.bars[b]))
    IN CASE o.op = "add" -> [mm EXCEPT !.ord = Append(mm.ord, nb)]
         [] o.op = "insert" -> [mm EXCEPT !.ord = InsertAt(mm.ord, Min(o.idx, Len(mm.ord)), nb)]
         [] o.op = "insert_from_back" -> [mm EXCEPT !.ord = InsertAt(mm.ord, SatSub(Len(mm.ord), o.idx), nb)]
         [] o.op = "insert_before" -> [mm EXCEPT !.ord = InsertAt(mm.ord, IPos(mm.ord, o.b2) - 1, nb)]
         [] o.op = "insert_after" -> [mm EXCEPT !.ord = InsertAt(mm.ord, IPos(mm.ord, o.b2), nb)]
         [] o.op = "mp_remove" -> IF member THEN MDraw([mm EXCEPT !.ord = SelectSeq(mm.ord, LAMBDA e : e.b # b), !.lines = [x \in DOMAIN mm.lines \ {b} |-> mm.lines[x]]], <<>>, TRUE, o.t) ELSE mm
         [] o.op = "set_target" -> IF member THEN MDraw([mm EXCEPT !.ord = Ghost(mm.ord, b), !.lines = [x \in DOMAIN mm.lines \ {b} |-> mm.lines[x]]], <<>>, TRUE, o.t) ELSE mm
         [] o.op = "readd" ->
               IF member THEN [MDraw([mm EXCEPT !.ord = Ghost(mm.ord, b), !.lines = [x \in DOMAIN mm.lines \ {b} |-> mm.lines[x]]], <<>>, TRUE, o.t) EXCEPT !.ord = Append(@, nb)]
               ELSE [mm EXCEPT !.ord = Append(mm.ord, nb)]
         [] o.op = "mp_clear" -> MClear(mm)
         [] o.op = "mp_println" -> MDraw(mm, TextLines(o.m), TRUE, o.t)
         [] o.op = "println" -> IF member THEN MDraw([fresh EXCEPT !.orphans = @ \o TextLines(o.m)], <<>>, TRUE, o.t) ELSE mm
         [] o.op \in {"mp_suspend", "suspend"} ->
               IF o.op = "suspend" /\ ~member THEN mm
               ELSE LET c == MClear(mm) IN MDraw([c EXCEPT !.d.t = UserLines(c.d.t, Split(o.m), 1)], <<>>, TRUE, o.t)
         [] o.op = "drop" ->
               IF ~member THEN mm
               ELSE MZombie(IF S0.bars[b].fin = "no" THEN MDraw(fresh, <<>>, TRUE, o.t) ELSE mm, b)
         [] o.op \in {"set_style", "restyle", "copy_style", "clone", "drop_one", "mp_set_alignment", "mp_set_move_cursor", "reset_eta", "reset_elapsed", "is_hidden", "mp_is_hidden", "downgrade", "upgrade"} -> mm
         [] o.op = "burst" -> IF member THEN MBurst(fresh, o.n, S1.bars[b].fin # "no", o.t) ELSE mm
         (* ProgressBarIter over n items: n ordinary requests (inc), then the finish (forced) unless the bar was finished before *)
         [] o.op = "iter" -> IF ~member THEN mm
                             ELSE LET m1 == MIter(mm, b, S0.bars[b], 1, o.n, S0.bars[b].fin # "no", o.t)
                                  IN IF S0.bars[b].fin = "no" THEN MDraw(SetLines(m1, b, Render(S1.bars[b])), <<>>, TRUE, o.t) ELSE m1
         (* finish*, abandon*, force_draw, set_tab_width force the draw, and so does every draw of a finished bar *)
         [] OTHER -> IF member THEN MDraw(fresh, <<>>, o.op \in MForced \/ S1.bars[b].fin # "no", o.t) ELSE mm

Painted(o, S0) == (o.op \in {"set_target", "readd", "mp_remove"} => S0.bars[o.b].inmp)
                  /\ o.op \notin {"add", "insert", "insert_from_back", "insert_before", "insert_after", "set_style", "restyle", "copy_style", "clone", "drop_one",
                               "mp_set_alignment", "mp_set_move_cursor", "reset_eta", "reset_elapsed", "is_hidden", "mp_is_hidden", "downgrade", "upgrade"}
                  /\ (o.op = "drop" => S0.bars[o.b].fin = "no")
                  /\ (o.b # 0 => (o.b \in S0.ids => S0.bars[o.b].vis))

ASSUME Base = 0      \* the modelled terminal starts empty
ASSUME Hz = 0 \/ LimExact(Hz)

MInit == /\ Init
         /\ m = [MM0 EXCEPT !.ord = [j \in 1..Pre |-> [b |-> j, z |-> FALSE]], !.lim = IF Hz > 0 THEN LimNew(Hz, 0) ELSE NoLim]
         /\ ok = TRUE

(* one operation: the library model acts, then the contract judges the modelled terminal like Trace_Screen does *)
MNext ==
    /\ Len(hist) < D /\ ~done /\ ok
    /\ \E o \in {x \in OpsNow : x.op \in {"println", "suspend", "mp_println", "mp_suspend"} => nlog < MaxLog} :
         LET fo == [t |-> m.now + o.dt] @@ Full(o)
             res == Apply(S, fo)
             S1 == res.S
         IN \E m1 \in {MStep(m, fo, S, S1)} :
              /\ m' = [m1 EXCEPT !.now = fo.t]
              (* with a limiter an ordinary request may be refused: then nothing was painted and nothing is judged (a forced one must paint) *)
              /\ IF Painted(fo, S) /\ (~m.lim.on \/ res.forced \/ m1.d # m.d)
                 THEN \E ms \in {Matches(S1, m1.d.t, res.log, res.blank)} :
                        /\ ok' = (ms # {})
                        /\ IF ms = {} THEN S' = S1
                           ELSE LET minV == {x \in ms : \A y \in ms : Cardinality(x[1].V) <= Cardinality(y[1].V)}
                                    mk == CHOOSE x \in minV : \A y \in minV : x[1].p <= y[1].p
                                    c == mk[1]
                                IN S' = [S1 EXCEPT !.above = c.above, !.order = c.order, !.blanked = res.blank, !.wasCut = S1.wasCut \/ IsCut(S1, c),
                                                   !.bars = LET bs == [bb \in DOMAIN S1.bars |-> IF bb \in c.V THEN [S1.bars[bb] EXCEPT !.static = FALSE, !.vis = FALSE]
                                                                                     ELSE IF res.blank THEN S1.bars[bb] ELSE [S1.bars[bb] EXCEPT !.onscr = S1.bars[bb].pend]]
                                                            IN IF ~res.blank /\ IsCut(S1, c) THEN MarkCutOff(S1, c, bs) ELSE bs]
                 ELSE /\ ok' = TRUE
                      /\ S' = [S1 EXCEPT !.above = S1.above \o [j \in 1..Len(res.log) |-> LogItem(res.log[j])]]
              /\ hist' = Append(hist, o)
              /\ nlog' = nlog + (IF o.op \in {"println", "suspend", "mp_println", "mp_suspend"} THEN 1 ELSE 0)
    /\ UNCHANGED <<done, I>>

MSpec == MInit /\ [][MNext]_mvars
MView == <<S, m, nlog, ok>>

(* the design satisfies the contract *)
ContractHolds == ok
=============================================================================
