----------------------------- MODULE MC_Screen -----------------------------
(***************************************************************************)
(* Behaviour generator for the rendering properties: TLC explores the      *)
(* Screen contract as a state machine over the public operations and       *)
(* prints every history (a sequence of API calls with arguments and time   *)
(* steps) as one JSON line.  Exhaustive mode enumerates every sequence of  *)
(* D operations over the configured alphabet; `tlc -simulate` draws deep   *)
(* random ones from the same next-state relation.  The histories are       *)
(* replayed on the real library by the harness and judged by Trace_Screen. *)
(*                                                                         *)
(* Enabling conditions that are deliberate restrictions of the quantifier  *)
(* are marked RESTRICTION.                                                 *)
(***************************************************************************)
EXTENDS Screen, Json

CONSTANTS
    W, H,            \* terminal size
    Multi,           \* TRUE: bars live in a MultiProgress; FALSE: one standalone bar
    MaxBars,         \* bars that may be created (Multi)
    D,               \* operations per history
    BarOps, MpOps,   \* operation alphabet (sets of names)
    MsgShapes,       \* message shapes (names, see Shape)
    TextShapes,      \* log text shapes
    Tpls, Fins,      \* templates and finish behaviours for new bars
    Hz,              \* 0 = no limiter, else refresh rate of the target
    DTs,             \* time steps in microseconds
    Base,            \* rows already on the terminal
    Align,           \* "top" / "bottom"
    M0,              \* "e": bars start with an empty message, "id": with their own digit
    Tgt,             \* "auto" (spy, or spy_hz when Hz > 0), "hidden", "pipe" (a Term that is not a tty), "pty", or one of the process's own
                     \* streams over a pipe / a pty: stderr_pipe, stdout_pipe, default_pipe, stderr_pty, stdout_pty, default_pty (Screen!HiddenTargets, PtyTargets)
    Faults,          \* k values for fail_at: the k-th next terminal call fails (once / sticky); {} = no faults
    Pre,             \* bars already added (Multi) when the enumeration starts
    Once,            \* TRUE: finish-type operations only on unfinished bars (keeps focused families small)
    Cover,           \* TRUE: explore distinct (contract, implementation-shaped) states and print the shortest history to each
    TabWs            \* initial tab widths given through with_tab_width (8 = default, builder not called)

VARIABLES S, hist, nlog, done, I
vars == <<S, hist, nlog, done, I>>
I0 == [ord |-> <<>>, zl |-> 0, ll |-> 0]

Run(n, base) == [j \in 1..n |-> base + ((j - 1) % 20)]

(* message / text shapes by name, relative to the terminal width *)
Shape(name, base) ==
    CASE name = "e"    -> <<>>
      [] name = "a"    -> Run(1, base)
      [] name = "Wm1"  -> Run(W - 1, base)
      [] name = "W"    -> Run(W, base)
      [] name = "W1"   -> Run(W + 1, base)
      [] name = "2W"   -> Run(2 * W, base)
      [] name = "2W1"  -> Run(2 * W + 1, base)
      [] name = "3W"   -> Run(3 * W, base)
      [] name = "nlA"  -> <<NL>> \o Run(2, base)
      [] name = "Anl"  -> Run(2, base) \o <<NL>>
      [] name = "AnlB" -> Run(1, base) \o <<NL>> \o Run(W, base + 1)
      [] name = "AnnB" -> Run(1, base) \o <<NL, NL>> \o Run(1, base + 1)
      [] name = "nl"   -> <<NL>>
      [] name = "WnnA" -> Run(W, base) \o <<NL, NL>> \o Run(1, base + 1)            \* full-width line, empty line, text
      [] name = "WnA"  -> Run(W, base) \o <<NL>> \o Run(1, base + 1)
      [] name = "2WnnA" -> Run(2 * W, base) \o <<NL, NL>> \o Run(1, base + 1)
      [] name = "sgr"  -> <<2000>>
      [] name = "sA"   -> <<2000>> \o Run(2, base) \o <<2000>>
      [] name = "wide" -> <<1000, 1001>>
      [] name = "wide3" -> <<1000, 1001, 1002>>                  \* three 2-column glyphs: 6 columns, 3 characters
      [] name = "edge" -> Run(W - 1, base) \o <<1000>>          \* a 2-column glyph that does not fit the row
      [] name = "tab"  -> Run(1, base) \o <<TAB>> \o Run(1, base + 1)
      [] name = "utab" -> <<233>> \o Run(1, base) \o <<TAB>> \o Run(1, base + 1)          \* a 2-byte character in front of the tab
      [] name = "tt"   -> <<TAB, TAB>>

(* a log text: unique tag glyph first so that lines are distinguishable *)
Tag(n) == IF n < 26 THEN 65 + n ELSE 48 + (n % 10)
TextOf(name, n) ==
    CASE name = "e"    -> <<>>
      [] name = "nl"   -> <<NL>>
      [] name = "same" -> <<35, 35>>                                              \* the same text every time ("##"): repeated log lines
      [] name = "T"    -> <<Tag(n)>>
      [] name = "TW"   -> <<Tag(n)>> \o Run(W - 1, 97)
      [] name = "TW1"  -> <<Tag(n)>> \o Run(W, 97)
      [] name = "T2W1" -> <<Tag(n)>> \o Run(2 * W, 97)
      [] name = "T5W"  -> <<Tag(n)>> \o Run(5 * W - 1, 97)                         \* one line that wraps to five rows (taller than a 4-row terminal)
      [] name = "TnlT" -> <<Tag(n), NL, Tag(n), 33>>
      [] name = "TnnT" -> <<Tag(n), NL, NL, Tag(n), 33>>
      [] name = "nlT"  -> <<NL, Tag(n)>>
      [] name = "Tnl"  -> <<Tag(n), NL>>
      [] name = "TWnnT"  -> <<Tag(n)>> \o Run(W - 1, 97) \o <<NL, NL, Tag(n), 33>>     \* full-width line, empty line, text
      [] name = "T2WnnT" -> <<Tag(n)>> \o Run(2 * W - 1, 97) \o <<NL, NL, Tag(n), 33>>
      [] name = "TWnT"   -> <<Tag(n)>> \o Run(W - 1, 97) \o <<NL, Tag(n), 33>>
      [] name = "TWnTW"  -> <<Tag(n)>> \o Run(W - 1, 97) \o <<NL, Tag(n)>> \o Run(W - 1, 110)

Alive(b) == b \in S.ids /\ S.bars[b].alive
AliveBars == {b \in S.ids : S.bars[b].alive}
NextId == Cardinality(S.ids) + 1
NoStatic == Statics(S) = {} /\ ~S.ghosts /\ \A b \in S.ids : S.bars[b].alive \/ ~S.bars[b].inmp     \* no member has been dropped or unlinked so far

TargetName == IF Tgt = "auto" THEN (IF Hz = 0 THEN "spy" ELSE "spy_hz") ELSE Tgt
NewOp0(name, b, tpl, fin, tw, tf, mf) ==
    [op |-> name, b |-> b, len |-> 3, tpl |-> tpl, fin |-> fin, tabw_first |-> tf, fm |-> <<70>>, m0 |-> IF M0 = "id" THEN <<48 + b>> ELSE IF M0 = "idw" THEN <<48 + b>> \o Run(W, 97) ELSE IF M0 = "tab" THEN <<48 + b, TAB, 97>> ELSE <<>>,
     p0 |-> IF M0 = "tab" THEN <<TAB, 112>> ELSE <<>>, pos0 |-> 0,
     tabw |-> tw, target |-> TargetName, hz |-> Hz, idx |-> 0, b2 |-> 0, dt |-> 0, mfirst |-> mf]

NewOp(name, b, tpl, fin) == NewOp0(name, b, tpl, fin, 8, FALSE, FALSE)
(* with_tab_width before or after with_style: every order must expand consistently (C16) *)
(* ... and with_message / with_prefix before or after it (mfirst: the texts are given first) *)
(* a bar on the default target is made by ProgressBar::new / new_spinner / no_length, or by an iterator adaptor for itself: (0..0).progress_count(len), (0..len).progress() *)
Vias == IF Tgt \in {"default_pipe", "default_pty"} /\ ~Multi THEN {"", "progress_count", "progress"} ELSE {""}
NewOps1(name, b, tpl, fin) == UNION { { NewOp0(name, b, tpl, fin, tw, tf, mf) : tf \in (IF tw = 8 THEN {FALSE} ELSE BOOLEAN), mf \in (IF tw = 8 \/ M0 # "tab" THEN {FALSE} ELSE BOOLEAN) } : tw \in TabWs }
NewOps(name, b, tpl, fin) == UNION { { [via |-> v] @@ o : v \in Vias } : o \in NewOps1(name, b, tpl, fin) }

BarOp(name, b, dt) == [op |-> name, b |-> b, dt |-> dt]

(* every operation enabled in the current state *)
OpsNow ==
    LET base == 97 + (Len(hist) % 6) * 3 IN
    (* creation *)
    (IF ~Multi /\ S.ids = {} THEN UNION { NewOps("new", 1, t, f) : t \in Tpls, f \in Fins } ELSE {}) \cup
    (IF Multi /\ NextId <= MaxBars
       THEN UNION { NewOps("add", NextId, t, f) : t \in Tpls, f \in Fins } \cup
            (* RESTRICTION: where an index-based insertion lands relative to dropped *)
            (* bars (static blocks, and cleared bars the library has not reaped yet  *)
            (* and still counts) is not specified by the property, so these are      *)
            (* generated only while no member has been dropped.                      *)
            (IF "insert" \in MpOps /\ NoStatic
               THEN { ([idx |-> ix] @@ NewOp(nm, NextId, t, "AndLeave")) : nm \in {"insert", "insert_from_back"}, ix \in {0, 1}, t \in Tpls }
               ELSE {}) \cup
            (IF "insert_rel" \in MpOps
               THEN { ([b2 |-> o] @@ NewOp(nm, NextId, t, "AndLeave")) : nm \in {"insert_before", "insert_after"}, o \in {x \in AliveBars : S.bars[x].inmp}, t \in Tpls }
               ELSE {})
       ELSE {}) \cup
    (* operations on live bars *)
    UNION { UNION { (CASE nm \in {"finish", "finish_and_clear", "abandon", "finish_using_style"}
                            -> IF Once /\ S.bars[b].fin # "no" THEN {} ELSE { BarOp(nm, b, dt) }
                       [] nm \in {"tick", "reset", "force_draw", "drop", "clone", "drop_one", "is_hidden", "downgrade", "reset_elapsed"}
                            -> { BarOp(nm, b, dt) }
                       [] nm = "burst" -> { ([n |-> 25] @@ BarOp(nm, b, dt)) }
                       [] nm = "fburst" -> { ([n |-> 80] @@ BarOp(nm, b, dt)) }                      \* eighty forced draws in a row
                       [] nm = "to_hidden_mp" -> IF Multi /\ ~S.bars[b].inmp THEN {} ELSE { BarOp(nm, b, dt) }
                       [] nm \in {"inc", "set_position", "seek_to", "set_length", "inc_length", "dec_length"}
                            (* RESTRICTION: position updates are spaced >= 1 ms so the position  *)
                            (* bucket (C05) never withholds the draw request                     *)
                            (* set_position also to a value beyond the length of the generated bars (3) *)
                            -> { ([n |-> k] @@ BarOp(nm, b, IF dt < 1000 THEN 1000 ELSE dt)) : k \in (IF nm \in {"set_position", "seek_to"} THEN {1, 5} ELSE {1}) }
                       (* a wrapped iterator over two items, exhausted by a for loop or by internal iteration (count, for_each: Iterator::fold) *)
                       (* RESTRICTION: two items are two position updates; 2 ms apart so that the position bucket (C05) never withholds the redraw request of the last one *)
                       [] nm = "iter" -> { ([n |-> 2, how |-> hw] @@ BarOp(nm, b, IF dt < 2000 THEN 2000 ELSE dt)) : hw \in {"for", "count", "for_each"} }
                       [] nm \in {"set_message", "set_prefix", "finish_with_message", "abandon_with_message"}
                            -> { ([m |-> Shape(s, base)] @@ BarOp(nm, b, dt)) : s \in MsgShapes }
                       [] nm \in {"println", "suspend"}
                            (* RESTRICTION: suspend through a bar that is not attached to the visible *)
                            (* target (removed from its MultiProgress) cannot coordinate with what is *)
                            (* on screen; writing from such a closure is the caller's own business.   *)
                            (* RESTRICTION: a line printed through a member while its MultiProgress is hidden is kept by the library and appears when the  *)
                            (* MultiProgress is shown (see DESIGN N2); whether it should is not specified, so it is not generated where a hidden one is shown *)
                            -> IF nm = "suspend" /\ ~Visible(S, b) THEN {} ELSE IF nm = "println" /\ "mp_set_target" \in MpOps /\ S.mphid /\ S.bars[b].inmp THEN {} ELSE { ([m |-> TextOf(s, nlog)] @@ BarOp(nm, b, dt)) : s \in (IF nm = "suspend" THEN TextShapes \ {"e", "nl", "Tnl", "nlT"} ELSE TextShapes) }
                       [] nm \in {"set_style", "restyle"} -> { ([tpl |-> t] @@ BarOp(nm, b, dt)) : t \in (IF nm = "restyle" THEN Tpls \ {"KM", "KC"} ELSE Tpls) }
                       (* the style of another bar (ProgressBar::style()) given to this one *)
                       [] nm = "copy_style" -> { ([b2 |-> o] @@ BarOp(nm, b, dt)) : o \in AliveBars \ {b} }
                       [] nm = "set_tab_width" -> { ([n |-> n] @@ BarOp(nm, b, dt)) : n \in {0, 1, 4} }
                       [] nm = "mp_remove" -> IF S.bars[b].inmp THEN { BarOp(nm, b, dt) } ELSE {}
                       [] nm = "set_target" ->
                            (* RESTRICTION: a member is only unlinked (hidden target): a member given a terminal of its own would share it  *)
                            (* with the MultiProgress, which nothing coordinates                                                           *)
                            IF Multi THEN (IF S.bars[b].inmp THEN { ([target |-> "hidden"] @@ BarOp(nm, b, dt)) } ELSE {})
                            (* RESTRICTION: a new terminal target starts painting at the cursor; where that is after an abandoned frame *)
                            (* (at its right edge) is the caller's business, so a bar is shown again only while nothing was abandoned    *)
                            ELSE { ([target |-> t] @@ BarOp(nm, b, dt)) : t \in {"hidden"} \cup (IF S.ghosts \/ S.bars[b].drawn THEN {} ELSE {"spy"}) }
                       [] nm = "readd" -> IF Multi THEN { BarOp(nm, b, dt) } ELSE {}
                       [] OTHER -> {})
                    : nm \in BarOps } : <<b, dt>> \in AliveBars \X DTs } \cup
    (* fault injection (C18): once per history *)
    (IF S.ids # {} /\ ~\E j \in 1..Len(hist) : hist[j].op = "fail_at"
       THEN { [op |-> "fail_at", b |-> 0, dt |-> 0, n |-> k, sticky |-> st] : k \in Faults, st \in BOOLEAN } ELSE {}) \cup
    (* a WeakProgressBar may be upgraded after the bar is gone, too *)
    (IF "upgrade" \in BarOps THEN { BarOp("upgrade", b, 0) : b \in {x \in S.ids : S.bars[x].weak} } ELSE {}) \cup
    (* operations on the MultiProgress *)
    (IF Multi
       THEN UNION { (CASE nm \in {"mp_println", "mp_suspend"}
                            -> { [op |-> nm, b |-> 0, dt |-> dt, m |-> TextOf(s, nlog)] : s \in (IF nm = "mp_suspend" THEN TextShapes \ {"e", "nl", "Tnl", "nlT"} ELSE TextShapes), dt \in DTs }
                       [] nm = "mp_clear" -> { [op |-> nm, b |-> 0, dt |-> dt] : dt \in DTs }
                       [] nm = "mp_set_move_cursor" -> (* only before anything is drawn: the mode is documented for frames that keep their shape *)
                                                       IF \A b \in S.ids : ~S.bars[b].drawn THEN { [op |-> nm, b |-> 0, dt |-> 0, n |-> 1] } ELSE {}
                       [] nm = "mp_is_hidden" -> { [op |-> nm, b |-> 0, dt |-> 0] }
                       (* RESTRICTION: a new terminal target starts painting at the cursor; after an abandoned region that is at the right edge of its last *)
                       (* line, which is the caller's business: the MultiProgress is shown (again) only while nothing was abandoned                        *)
                       [] nm = "mp_set_target" -> { [op |-> nm, b |-> 0, dt |-> 0, target |-> t] : t \in (IF S.mphid THEN (IF S.ghosts THEN {} ELSE {"spy"}) ELSE {"hidden"}) }
                       [] nm = "mp_set_alignment" -> { [op |-> nm, b |-> 0, dt |-> 0, a |-> a] : a \in {"top", "bottom"} \ {S.align} }
                       [] OTHER -> {}) : nm \in MpOps }
       ELSE {})

(* Records handed to Apply need every field it may read. *)
Full(o) == o @@ [b2 |-> 0, idx |-> 0, n |-> 0, m |-> <<>>, tpl |-> "", a |-> "", target |-> "spy", t |-> 0]

(* For generation the contract state is advanced assuming every paint      *)
(* happens, statics stay and new log lines go last.                        *)
Advance(o) ==
    LET res == Apply(S, Full(o))
        hm == HeadMove(res.S, res.S.above, res.S.order)
        items == [j \in 1..Len(res.log) |-> LogItem(res.log[j])]
    IN [res.S EXCEPT !.above = hm.above \o items, !.order = hm.order]

RECURSIVE PreOps(_)
PreOps(n) == IF n = 0 THEN <<>> ELSE Append(PreOps(n - 1), NewOp("add", n, CHOOSE t \in Tpls : TRUE, CHOOSE f \in Fins : TRUE))
RECURSIVE PreState(_, _, _)
PreState(S0, ops, i) == IF i > Len(ops) THEN S0 ELSE PreState(Apply(S0, Full(ops[i])).S, ops, i + 1)

Init == /\ S = PreState(SInit(W, H, Multi, Multi /\ Tgt \in HiddenTargets, Align), PreOps(Pre), 1) /\ hist = PreOps(Pre) /\ nlog = 0 /\ done = FALSE
        /\ I = [I0 EXCEPT !.ord = [j \in 1..Pre |-> [b |-> j, z |-> FALSE]]]

Dead == ~Multi /\ S.ids # {} /\ AliveBars = {}

Cfg == [w |-> W, h |-> H, base |-> Base] @@
       (IF Multi THEN [mp |-> [target |-> TargetName, hz |-> Hz, align |-> Align]] ELSE <<>>)

(* ---------------------------------------------------------------------- *)
(* IMPLEMENTATION-SHAPED abstraction of MultiState + its draw target, used  *)
(* as part of the VIEW when Cover = TRUE so that histories which differ in  *)
(* the library's own book-keeping (not only in the contract state) are all  *)
(* explored: ord = `ordering` with the zombie flags, zl = zombie_lines_count,*)
(* ll = last_line_count (rows).  One action per critical section:           *)
(* Paint = MultiState::draw (reap head zombies, println clears the zombie   *)
(* lines), Zombie = mark_zombie, Clear = MultiState::clear.                 *)
RowsB(S1, b) == IF b # 0 /\ S1.bars[b].drawn THEN RowsOf(S1.bars[b].pend, W) ELSE 0
Ghost(o, b) == [j \in 1..Len(o) |-> IF o[j].b = b THEN [b |-> 0, z |-> o[j].z] ELSE o[j]]
RECURSIVE SumRows(_, _, _)
SumRows(S1, o, j) == IF j > Len(o) THEN 0 ELSE RowsB(S1, o[j].b) + SumRows(S1, o, j + 1)
RECURSIVE Heads(_)
Heads(o) == IF o # <<>> /\ o[1].z THEN <<o[1]>> \o Heads(Tail(o)) ELSE <<>>
IPaint(i, S1, text) ==
    LET hs == Heads(i.ord)
        adj == SumRows(S1, hs, 1)
        total == SumRows(S1, i.ord, 1)
    IN [ord |-> SubSeq(i.ord, Len(hs) + 1, Len(i.ord)), zl |-> IF text THEN 0 ELSE i.zl + adj, ll |-> IF text THEN total ELSE total - adj]
IZombie(i, S1, b) ==
    IF i.ord # <<>> /\ i.ord[1].b = b
    THEN LET r == RowsB(S1, b) IN [ord |-> Tail(i.ord), zl |-> i.zl + Min(r, i.ll), ll |-> IF i.ll >= r THEN i.ll - r ELSE 0]
    ELSE [i EXCEPT !.ord = [j \in 1..Len(i.ord) |-> IF i.ord[j].b = b THEN [b |-> b, z |-> TRUE] ELSE i.ord[j]]]
IPos(o, b) == CHOOSE j \in 1..Len(o) : o[j].b = b
IAdvance(i, o, S0, S1) ==
    IF ~Multi THEN i
    ELSE LET nb == [b |-> o.b, z |-> FALSE]
             inord == o.b # 0 /\ \E j \in 1..Len(i.ord) : i.ord[j].b = o.b
         IN CASE o.op = "add" -> [i EXCEPT !.ord = Append(i.ord, nb)]
              [] o.op = "insert" -> [i EXCEPT !.ord = InsertAt(i.ord, Min(o.idx, Len(i.ord)), nb)]
              [] o.op = "insert_from_back" -> [i EXCEPT !.ord = InsertAt(i.ord, SatSub(Len(i.ord), o.idx), nb)]
              [] o.op = "insert_before" -> [i EXCEPT !.ord = InsertAt(i.ord, IPos(i.ord, o.b2) - 1, nb)]
              [] o.op = "insert_after" -> [i EXCEPT !.ord = InsertAt(i.ord, IPos(i.ord, o.b2), nb)]
              [] o.op = "mp_remove" -> IF inord THEN IPaint([i EXCEPT !.ord = SelectSeq(i.ord, LAMBDA e : e.b # o.b)], S1, FALSE) ELSE i     \* remove repaints at once
              (* the unlinked slot stays in the ordering with nothing to draw (b = 0) *)
              [] o.op = "set_target" -> IF inord THEN IPaint([i EXCEPT !.ord = Ghost(i.ord, o.b)], S1, FALSE) ELSE i
              [] o.op = "readd" -> IF inord THEN [IPaint([i EXCEPT !.ord = Ghost(i.ord, o.b)], S1, FALSE) EXCEPT !.ord = Append(@, nb)]
                                   ELSE [i EXCEPT !.ord = Append(i.ord, nb)]
              [] o.op = "mp_clear" -> [i EXCEPT !.zl = 0, !.ll = 0]
              [] o.op \in {"mp_println", "println"} -> IF o.op = "println" /\ ~inord THEN i ELSE IPaint(i, S1, TRUE)
              [] o.op \in {"mp_suspend", "suspend"} -> IPaint([i EXCEPT !.zl = 0, !.ll = 0], S1, FALSE)
              [] o.op = "drop" -> IF ~inord THEN i
                                  ELSE IZombie(IF S0.bars[o.b].fin = "no" THEN IPaint(i, S1, FALSE) ELSE i, S1, o.b)
              [] o.op \in {"set_style", "restyle", "copy_style", "clone", "drop_one", "mp_set_alignment", "mp_set_move_cursor", "reset_eta", "reset_elapsed", "fail_at", "is_hidden", "mp_is_hidden", "mp_set_target", "downgrade", "upgrade"} -> i
              [] OTHER -> IF inord THEN IPaint(i, S1, FALSE) ELSE i

Step == /\ Len(hist) < D
        /\ ~Dead
        /\ ~done
        /\ \E o \in OpsNow : \E S1 \in {Advance(o)} :
              /\ S' = S1
              /\ I' = IAdvance(I, Full(o), S, S1)
              /\ hist' = Append(hist, o)
              /\ nlog' = nlog + (IF o.op \in {"println", "suspend", "mp_println", "mp_suspend"} THEN 1 ELSE 0)
              (* Cover: every transition out of every distinct state is printed (a transition cover: *)
              (* the last step matters even when it leads to a state that is already known)          *)
              /\ (Cover => PrintT(<<"REPLAY", ToJson([cfg |-> Cfg, ops |-> Append(hist, o)])>>))
        /\ UNCHANGED done

(* A finished history is printed when the state that ends it is expanded:  *)
(* once per history under breadth-first search, and once per behaviour     *)
(* (not once per candidate successor) under -simulate.  With Cover = TRUE   *)
(* the transitions are printed in Step instead.                             *)
Finish == /\ ~Cover /\ (Len(hist) = D \/ Dead)
          /\ ~done
          /\ PrintT(<<"REPLAY", ToJson([cfg |-> Cfg, ops |-> hist])>>)
          /\ done' = TRUE
          /\ UNCHANGED <<S, hist, nlog, I>>

Next == Step \/ Finish

Spec == Init /\ [][Next]_vars

(* the last two operations are part of the view: two histories that the reference book-keeping  *)
(* does not distinguish may still differ for a changed implementation in their last steps        *)
Last2 == [j \in 1..Min(2, Len(hist)) |-> <<hist[Len(hist) - Min(2, Len(hist)) + j].op, hist[Len(hist) - Min(2, Len(hist)) + j].b>>]
CoverView == <<S, I, nlog, done, Last2>>

(* structural invariants of the contract state *)
NoDup(seq) == \A p, q \in 1..Len(seq) : p # q => seq[p] # seq[q]
TypeOK == /\ NoDup(S.order)
          /\ \A j \in 1..Len(S.order) : S.order[j] \in S.ids
          /\ \A j \in 1..Len(S.above) : S.above[j].k = "st" => (S.above[j].b \in S.ids /\ ~InSeq(S.order, S.above[j].b))
          /\ \A b \in S.ids : S.bars[b].static => ~S.bars[b].alive
=============================================================================
