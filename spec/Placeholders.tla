---------------------------- MODULE Placeholders ----------------------------
(***************************************************************************)
(* CONTRACT for property C11: what each documented template key shows, as  *)
(* a TERM over the logical state of the bar at the moment of the draw.     *)
(*                                                                         *)
(* The logical state P is                                                  *)
(*   L        position / length / finished, exact u64 (Logical.tla)        *)
(*   msg, prefix  the current message and prefix (cells)                   *)
(*   tlo..thi the possible number of ticks of the bar: every tick() call   *)
(*            ticks; "any other change" ticks as well, but whether a       *)
(*            particular change did is not observable through the API, so  *)
(*            each mutating call widens the interval by one; reset() may   *)
(*            or may not restart the spinner                               *)
(*   klo..khi the possible number of tick calls a custom tracker has       *)
(*            received (same reasoning), resets = number of reset() calls  *)
(*                                                                         *)
(* Formatting (HumanBytes, HumanDuration, {:.0} of an f32, ...) cannot be  *)
(* evaluated by TLC; the value of each formatter applied to each PUBLIC    *)
(* getter at the frozen instant of the draw is an input fact f.<name>      *)
(* logged by the driver in the same record.  The contract is the table     *)
(* Term: which formatter of which getter a key denotes, and that a missing *)
(* length denotes the position.  Facts TLC can evaluate itself (decimal    *)
(* position / length, message, prefix) are tied to the model state by      *)
(* FactsOK, so the chain painted = term(getters) = term(model) is closed.  *)
(***************************************************************************)
EXTENDS Logical, Cells

(* the documented keys this contract covers ({bar} and {wide_bar}: see BarGeometry) *)
Keys == <<"pos", "human_pos", "len", "human_len", "percent", "percent_precise",
          "bytes", "total_bytes", "decimal_bytes", "decimal_total_bytes", "binary_bytes", "binary_total_bytes",
          "elapsed_precise", "elapsed", "per_sec", "bytes_per_sec", "decimal_bytes_per_sec", "binary_bytes_per_sec",
          "eta_precise", "eta", "duration_precise", "duration", "msg", "prefix", "wide_msg", "spinner", "ctr">>

(* key -> term.  f: facts (formatter applied to getter), has: the bar has a length *)
Term(key, f, has) ==
    CASE key = "pos"                   -> f.dec_pos                              \* position()
      [] key = "human_pos"             -> f.hc_pos                               \* HumanCount(position())
      [] key = "len"                   -> IF has THEN f.dec_len ELSE f.dec_pos   \* length(), a missing length renders as the position
      [] key = "human_len"             -> IF has THEN f.hc_len ELSE f.hc_pos
      [] key = "percent"               -> f.pct0                                 \* {:.0} of fraction * 100
      [] key = "percent_precise"       -> f.pct3                                 \* {:.3} of fraction * 100
      [] key = "bytes"                 -> f.hb_pos                               \* HumanBytes(position())
      [] key = "total_bytes"           -> IF has THEN f.hb_len ELSE f.hb_pos
      [] key = "decimal_bytes"         -> f.db_pos                               \* DecimalBytes
      [] key = "decimal_total_bytes"   -> IF has THEN f.db_len ELSE f.db_pos
      [] key = "binary_bytes"          -> f.bb_pos                               \* BinaryBytes
      [] key = "binary_total_bytes"    -> IF has THEN f.bb_len ELSE f.bb_pos
      [] key = "elapsed_precise"       -> f.el_p                                 \* FormattedDuration(elapsed())
      [] key = "elapsed"               -> f.el_h                                 \* {:#} of HumanDuration(elapsed())
      [] key = "per_sec"               -> f.ps                                   \* HumanFloatCount(per_sec()) "/s"
      [] key = "bytes_per_sec"         -> f.bps                                  \* HumanBytes(per_sec() as u64) "/s"
      [] key = "decimal_bytes_per_sec" -> f.dbps
      [] key = "binary_bytes_per_sec"  -> f.bbps
      [] key = "eta_precise"           -> f.eta_p                                \* FormattedDuration(eta())
      [] key = "eta"                   -> f.eta_h
      [] key = "duration_precise"      -> f.dur_p                                \* FormattedDuration(duration())
      [] key = "duration"              -> f.dur_h
      [] key = "msg"                   -> f.msg                                  \* message()
      [] key = "prefix"                -> f.prefix                               \* prefix()
      [] key = "ctr"                   -> f.ctr                                  \* what the custom tracker writes
      [] OTHER                         -> <<63, 63, 63>>

(* logical state *)
PInit(r) == [L |-> [LInit(~r.nolen, IF r.nolen THEN Zero ELSE r.len) EXCEPT !.pos = r.pos0],
             msg |-> r.m0, prefix |-> r.p0, ts |-> r.ts, tlo |-> 0, thi |-> 0, klo |-> 0, khi |-> 0, resets |-> 0]
P0 == [L |-> LInit(FALSE, Zero), msg |-> <<>>, prefix |-> <<>>, ts |-> << <<120>>, <<121>> >>, tlo |-> 0, thi |-> 0, klo |-> 0, khi |-> 0, resets |-> 0]

Mutators == {"inc", "dec", "set_position", "set_length", "unset_length", "inc_length", "dec_length", "set_message", "set_prefix",
             "finish", "finish_with_message", "abandon", "abandon_with_message", "reset"}
PApply(P, r) ==
    LET P1 == [P EXCEPT !.L = LApply(P.L, r)] IN
    CASE r.op = "tick"  -> [P1 EXCEPT !.tlo = @ + 1, !.thi = @ + 1, !.klo = @ + 1, !.khi = @ + 1]
      [] r.op = "ticks" -> [P1 EXCEPT !.tlo = @ + r.k, !.thi = @ + r.k, !.klo = @ + r.k, !.khi = @ + r.k]
      [] r.op \in {"set_message", "finish_with_message", "abandon_with_message"} -> [P1 EXCEPT !.msg = r.m, !.thi = @ + 1, !.khi = @ + 1]
      [] r.op = "set_prefix" -> [P1 EXCEPT !.prefix = r.m, !.thi = @ + 1, !.khi = @ + 1]
      [] r.op = "reset" -> [P1 EXCEPT !.tlo = 0, !.thi = @ + 1, !.khi = @ + 1, !.resets = @ + 1]
      [] r.op \in Mutators -> [P1 EXCEPT !.thi = @ + 1, !.khi = @ + 1]
      [] OTHER -> P1                           \* adv (the clock moves), render, tickstr

(* the spinner shows the tick string of the current tick, the final tick string once finished *)
NTs(P) == Len(P.ts)
SpinnerOK(F, P) ==
    IF P.L.fin THEN F = P.ts[NTs(P)]
    ELSE \E t \in P.tlo..P.thi : F = P.ts[(t % (NTs(P) - 1)) + 1]

(* public tick-string functions: get_tick_str(idx) cycles through all but the last string *)
TickStrOK(got, idx, ts) == got = ts[DivMod(idx, Len(ts) - 1).r + 1]
FinalStrOK(got, ts) == got = ts[Len(ts)]

(* facts that TLC can evaluate itself *)
FactsOK(f, P) ==
    /\ f.dec_pos = DecDigits(P.L.pos)
    /\ (P.L.has => f.dec_len = DecDigits(P.L.len))
    /\ f.msg = P.msg /\ f.prefix = P.prefix

(* the state a custom key sees / the getters *)
SeenOK(s, P) == s.pos = P.L.pos /\ s.haslen = P.L.has /\ (P.L.has => s.len = P.L.len) /\ s.fin = P.L.fin

RECURSIVE TrailBlank(_, _)
TrailBlank(F, n) == IF n = 0 \/ F[n] # SP THEN 0 ELSE 1 + TrailBlank(F, n - 1)
RStrip(F) == SubSeq(F, 1, Len(F) - TrailBlank(F, Len(F)))
=============================================================================
