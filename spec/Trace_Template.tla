---------------------------- MODULE Trace_Template ----------------------------
(* MONITOR for C10: traces recorded by harness `tpl` from the real            *)
(* ProgressStyle::with_template / ProgressStyle::template and real draws.     *)
(*   NoPanic      every string yields Ok or Err from both entry points        *)
(*   WellFormedOk a well-formed template (all widths <= u16::MAX) is accepted *)
(*   RenderOK     drawing an accepted well-formed template does not panic     *)
(*   Fidelity     what was painted is a denotation of the template            *)
(*                (TemplateGrammar!Renders); with a width beyond u16::MAX the  *)
(*                template may be refused, but if accepted the same holds     *)
EXTENDS TemplateGrammar, Json, IOUtils, TLC
Rec == ndJsonDeserialize(IOEnv.TRACE)
VARIABLES i, dead, bad, st
vars == <<i, dead, bad, st>>
St0 == [recs |-> 0, hists |-> 0, strings |-> 0, ok |-> 0, err |-> 0, wf |-> 0, rendered |-> 0, bigw |-> 0, bigwErr |-> 0,
        multiline |-> 0, padded |-> 0, truncAlts |-> 0, backtracks |-> 0, soup |-> 0]

(* one entry point: res \in {"ok", "err", "panic"}, draw \in {"ok", "panic", "none"} *)
WfRule(r, res, draw, rows) ==
    IF res = "err" THEN (IF HasBigWidth(r.items) THEN "" ELSE "WellFormedOk")
    ELSE IF draw # "ok" THEN "RenderOK"
    ELSE IF ~Renders(r.env, r.items, rows) THEN "Fidelity"
    ELSE ""

First(a, b) == IF a # "" THEN a ELSE b
Rule(r) ==
    IF r.op = "abort" THEN "NoAbort"
    ELSE IF r.res1 = "panic" \/ r.res2 = "panic" THEN "NoPanic"
    ELSE IF ~r.wf THEN ""
    ELSE First(WfRule(r, r.res1, r.draw1, r.rows1), WfRule(r, r.res2, r.draw2, r.rows2))

HasBacktrack(items) == \E j \in 1..Len(items) : items[j].k = "lit" /\ Len(items[j].text) = 2 /\ items[j].text[1] = 123
Count(s, r) ==
    IF r.op = "abort" THEN [s EXCEPT !.recs = @ + 1]
    ELSE [s EXCEPT !.recs = @ + 1, !.strings = @ + 1,
                   !.ok = @ + (IF r.res1 = "ok" THEN 1 ELSE 0), !.err = @ + (IF r.res1 = "err" THEN 1 ELSE 0),
                   !.soup = @ + (IF r.op = "soup" THEN 1 ELSE 0),
                   !.wf = @ + (IF r.wf THEN 1 ELSE 0),
                   !.rendered = @ + (IF r.wf /\ r.draw1 = "ok" THEN 1 ELSE 0),
                   !.bigw = @ + (IF r.wf /\ HasBigWidth(r.items) THEN 1 ELSE 0),
                   !.bigwErr = @ + (IF r.wf /\ HasBigWidth(r.items) /\ r.res1 = "err" THEN 1 ELSE 0),
                   !.multiline = @ + (IF r.wf /\ Len(r.rows1) > 1 THEN 1 ELSE 0),
                   !.padded = @ + (IF r.wf /\ (\E j \in 1..Len(r.items) : r.items[j].hasw) THEN 1 ELSE 0),
                   !.truncAlts = @ + (IF r.wf /\ Cardinality(Denote(r.env, r.items)) > 1 THEN 1 ELSE 0),
                   !.backtracks = @ + (IF r.wf /\ HasBacktrack(r.items) THEN 1 ELSE 0)]

Init == /\ i = 1 /\ dead = TRUE /\ bad = <<>> /\ st = St0
        /\ TLCSet(1, <<>>) /\ TLCSet(2, St0) /\ TLCSet(3, 1)
Next ==
    /\ i <= Len(Rec)
    /\ \E r \in {Rec[i]} :
       IF r.op = "init" THEN /\ dead' = FALSE /\ bad' = bad /\ st' = [st EXCEPT !.recs = @ + 1, !.hists = @ + 1]
       ELSE IF dead THEN UNCHANGED <<dead, bad>> /\ st' = [st EXCEPT !.recs = @ + 1]
       ELSE \E rule \in {Rule(r)} :
            /\ dead' = (rule # "")
            /\ bad' = IF rule = "" THEN bad ELSE Append(bad, [h |-> r.h, i |-> r.i, rule |-> rule, op |-> r.op])
            /\ st' = Count(st, r)
    /\ i' = i + 1
    /\ TLCSet(1, bad') /\ TLCSet(2, st') /\ TLCSet(3, i')
Spec == Init /\ [][Next]_vars
Post == PrintT(<<"VERDICTS", ToJson([consumed |-> TLCGet(3) - 1, total |-> Len(Rec), bad |-> TLCGet(1), st |-> TLCGet(2)])>>)
=============================================================================
