---------------------------- MODULE Trace_Screen ----------------------------
(***************************************************************************)
(* MONITOR: validates traces recorded from the real library (harness       *)
(* driver `api`) against the Screen contract.  One NDJSON record per       *)
(* public call: the operation with its arguments, the TermLike calls it    *)
(* caused, the getters afterwards.  The next-state relation is total: it   *)
(* consumes every record, folds the logged terminal calls through          *)
(* Term.tla, advances the contract state and records a verdict for the     *)
(* first failing step of each history (later records of that history are   *)
(* skipped, the other histories are still examined).                       *)
(***************************************************************************)
EXTENDS Screen, Json, IOUtils

Rec == ndJsonDeserialize(IOEnv.TRACE)

VARIABLES i, S, T, dead, bad, st
vars == <<i, S, T, dead, bad, st>>

St0 == [recs |-> 0, hists |-> 0, paints |-> 0, forced |-> 0, quiet |-> 0, cuts |-> 0, wrapped |-> 0,
        vanish |-> 0, statics |-> 0, logs |-> 0, bottomk |-> 0]

LibCalls(r) == SelectSeq(r.calls, LAMBDA x : x.u = 0)
Drew(r) == \E j \in 1..Len(r.calls) : r.calls[j].u = 0 /\ r.calls[j].k = "flush"
TabInCalls(r) == \E j \in 1..Len(r.calls) : r.calls[j].u = 0 /\ HasTab(r.calls[j].c)

InitOf(r) ==
    LET S0 == [SInit(r.cfg.w, r.cfg.h, r.cfg.multi, r.cfg.mphid, r.cfg.align) EXCEPT !.pty = r.cfg.pty, !.unlim = r.cfg.multi /\ r.cfg.hz = 0 /\ ~r.cfg.pty /\ ~r.cfg.mphid]
        T0 == Calls(TInit(r.cfg.w, r.cfg.h), r.calls)
        base == SelectSeq(r.calls, LAMBDA x : x.u = 1 /\ x.k = "line")
    IN [S |-> [S0 EXCEPT !.above = [j \in 1..Len(base) |-> LogItem(base[j].c)]], T |-> T0]

(* results of calls that return something *)
RetOK(S1, r) ==
    /\ (r.op = "is_hidden" /\ r.b \in S1.ids) => (r.ret = (IF Visible(S1, r.b) THEN "false" ELSE "true"))
    /\ (r.op = "mp_is_hidden") => (r.ret = (IF S1.mphid THEN "true" ELSE "false"))
    /\ (r.op = "upgrade" /\ r.b \in S1.ids /\ S1.bars[r.b].weak) => (r.ret = (IF S1.bars[r.b].alive THEN "some" ELSE "none"))

(* getters after the call agree with the contract's logical state *)
GetOK(S1, r) ==
    LET b == r.b IN
    (b \in S1.ids /\ S1.bars[b].alive /\ r.get.has) =>
        LET B == S1.bars[b] IN
        /\ r.get.msg = TabX(B.msg, B.tabw)
        /\ r.get.prefix = TabX(B.prefix, B.tabw)
        /\ r.get.fin = (B.fin # "no")
        /\ r.get.pos_s = B.pos
        /\ r.get.haslen = (B.len # NoLen)
        /\ (B.len # NoLen => r.get.len_s = B.len)
        /\ r.get.elapsed_us = r.t - B.born                       \* elapsed() under the virtual clock

(* C06: an operation on a bar that is not attached to a visible target (hidden target,  *)
(* Term that is not a tty, member of a hidden MultiProgress, removed from its           *)
(* MultiProgress) performs no terminal operation at all.                                *)
SilentBar(S0, S1, r) ==
    \/ r.b \in S1.ids /\ ~Visible(S1, r.b) /\ (r.b \in S0.ids => ~Visible(S0, r.b))
    \/ r.b = 0 /\ S1.mphid /\ (r.op \in {"mp_println", "mp_clear", "mp_suspend", "mp_set_alignment", "mp_is_hidden"} \/ (r.op = "mp_set_target" /\ S0.mphid))

(* A finished, visible bar whose last handle is dropped stays on the terminal as it  *)
(* is: what was painted last for it must be the rendering of its final state.        *)
FinalOK(S0, S1, r) ==
    (r.op = "drop" /\ r.b \in S0.ids /\ S0.bars[r.b].fin = "vis" /\ Visible(S0, r.b) /\ S0.bars[r.b].drawn /\ ~S0.blanked)
        => S0.bars[r.b].onscr = S0.bars[r.b].pend

AnyWrapped(S1, c) == \E l \in {x : x \in {AboveLines(S1, c.above)[j] : j \in 1..Len(AboveLines(S1, c.above))} \cup {ShownLines(S1, c.order)[j] : j \in 1..Len(ShownLines(S1, c.order))}} : Cols(l) > S1.w

NoM == [p |-> FALSE, cut |-> FALSE, k |-> 0, v |-> 0, wrapped |-> FALSE, forced |-> FALSE, log |-> FALSE]

(* One record: new contract state, new terminal, verdict rule ("" = ok).   *)
Step(S0, T0, r) ==
    LET res == Apply(S0, r)
        S1 == res.S
        T1 == Calls(T0, r.calls)
        (* behind a real Term only bytes are visible: a forced paint of an empty frame with nothing to erase writes none *)
        drew == Drew(r) \/ (S0.pty /\ res.forced /\ r.calls = <<>>)
        items == [j \in 1..Len(res.log) |-> LogItem(res.log[j])]
        quietS == [S1 EXCEPT !.above = S1.above \o items]
    IN
    IF r.panic # "" THEN [S |-> S1, T |-> T1, rule |-> "NoPanic", m |-> NoM]
    ELSE IF S0.faulty \/ r.op = "fail_at" THEN
        (* C18: after an injected terminal failure the screen is not predicted any more; what *)
        (* remains is: no panic (above), the logical state, and errors reported by the calls  *)
        (* that return io::Result when their own draw failed.                                 *)
        [S |-> [quietS EXCEPT !.faulty = TRUE,
                              !.pendingOnce = IF r.op = "fail_at" THEN ~r.sticky ELSE (S0.pendingOnce /\ r.failed = 0),
                              !.transient = S0.transient \/ (S0.pendingOnce /\ r.failed > 0)],
         T |-> T1, m |-> NoM,
         rule |-> IF ~GetOK(S1, r) THEN "GetOK"
                  (* C04 after a transient failure: the terminal works again, so an obligatory paint (finish, drop, force_draw, println ...) *)
                  (* must reach the terminal again - what it shows is not predicted, that it is painted is                                   *)
                  ELSE IF S0.transient /\ res.forced /\ ~drew THEN "ForcedOK"
                  (* ... and a stand-alone bar that is finished and cleared stays cleared: no later call paints text for it *)
                  ELSE IF S0.transient /\ ~S1.multi /\ r.b \in S1.ids /\ r.b \in S0.ids /\ S0.bars[r.b].fin = "hid" /\ S1.bars[r.b].fin = "hid" /\ res.log = <<>>
                          /\ (\E j \in 1..Len(r.calls) : r.calls[j].u = 0 /\ r.calls[j].k \in {"str", "line"} /\ (\E g \in 1..Len(r.calls[j].c) : r.calls[j].c[g] # 32)) THEN "ClearedOK"
                  ELSE IF r.op \in {"mp_println", "mp_clear"} /\ r.failed > 0 /\ r.ret # "err" THEN "ErrReported"
                  ELSE ""]
    ELSE IF SilentBar(S0, S1, r) /\ (LibCalls(r) # <<>> \/ r.pipe > 0) THEN
        [S |-> quietS, T |-> T1, m |-> NoM, rule |-> "SilentOK"]
    ELSE IF ~drew THEN
        [S |-> quietS, T |-> T1, m |-> NoM,
         rule |-> IF LibCalls(r) # <<>> THEN "QuietOK"
                  ELSE IF res.forced THEN "ForcedOK"
                  (* a target without refresh rate has no limiter that could skip a redraw request: if nothing was painted, the *)
                  (* terminal must already show what the paint would have produced (an unchanged frame may be left alone)      *)
                  ELSE IF r.op \in RequestOps /\ Visible(S0, r.b) /\ Visible(S1, r.b) /\ Unlimited(S1, r.b) /\ Matches(S1, T1, res.log, FALSE) = {} THEN "UnlimitedOK"
                  ELSE IF ~FinalOK(S0, S1, r) THEN "FinalOK"
                  ELSE IF ~RetOK(S1, r) THEN "RetOK"
                  ELSE IF ~GetOK(S1, r) THEN "GetOK"
                  ELSE ""]
    ELSE
        LET ms == Matches(S1, T1, res.log, res.blank) IN
        IF ms = {} THEN
            [S |-> quietS, T |-> T1, m |-> NoM,
             exp |-> LET hm == HeadMove(quietS, quietS.above, quietS.order) IN
                     AboveLines(quietS, hm.above) \o <<<<45, 45>>>> \o (IF res.blank THEN <<>> ELSE Cut(ShownLines(quietS, hm.order), quietS.h, quietS.w)),
             rule |-> IF ~LogIntact(S1, T1, quietS.above) THEN "LogOK" ELSE "ScreenOK"]
        ELSE
            (* Among the layouts that explain the screen prefer one that also explains the  *)
            (* cursor and keeps the bottom of a bottom-aligned region where it was; among   *)
            (* those the one in which the fewest static blocks vanished.                    *)
            LET Total(x) == ExpRows(S1, x[1], res.blank, x[2])
                (* the cursor clause belongs to frames that fit the terminal (C01); a frame cut by the terminal height ends *)
                (* without the right-edge filler, and later paints that write no bar line inherit that cursor position     *)
                Cur(x) == \/ S1.wasCut
                          \/ ~res.blank /\ IsCut(S1, x[1])
                          \/ NextPrint(T1) = <<Total(x) + 1, 0>>
                          \/ S1.everBottom /\ NextPrint(T1)[2] = 0 /\ NextPrint(T1)[1] > Len(AllRows(T1))
                Bot(x) == S1.align # "bottom" \/ res.blank \/ IsCut(S1, x[1]) \/ r.op \in {"suspend", "mp_suspend"} \/ NextPrint(T1)[1] >= S1.bottom
                good == {x \in ms : Cur(x) /\ Bot(x)}
                pool == IF good # {} THEN good ELSE IF {x \in ms : Cur(x)} # {} THEN {x \in ms : Cur(x)} ELSE ms
                (* ... and among those the one that puts the new log lines highest: a later log line may go anywhere after the last one, so *)
                (* when several placements explain the screen (blank lines, once blank rows are ignored) the highest constrains the least *)
                minV == {x \in pool : \A y \in pool : Cardinality(x[1].V) <= Cardinality(y[1].V)}
                mk == CHOOSE x \in minV : \A y \in minV : x[1].p <= y[1].p
                c == mk[1]
                k == mk[2]
                total == Total(mk)
                cut == ~res.blank /\ IsCut(S1, c)
                S2 == [S1 EXCEPT !.above = c.above, !.order = c.order, !.blanked = res.blank, !.wasCut = S1.wasCut \/ cut, !.bottom = IF S1.align = "bottom" /\ ~res.blank THEN NextPrint(T1)[1] ELSE 0,
                                 !.bars = LET bs == [b \in DOMAIN S1.bars |-> IF b \in c.V THEN [S1.bars[b] EXCEPT !.static = FALSE, !.vis = FALSE]
                                                         ELSE IF res.blank THEN S1.bars[b] ELSE [S1.bars[b] EXCEPT !.onscr = S1.bars[b].pend]]
                                          IN IF cut THEN MarkCutOff(S1, c, bs) ELSE bs]
            IN [S |-> S2, T |-> T1,
                m |-> [p |-> TRUE, forced |-> res.forced, log |-> res.log # <<>>, cut |-> cut, k |-> k, v |-> Cardinality(c.V),
                       wrapped |-> total > Len(TopLines(S1, c, res.blank)) + Len(ShownCut(S1, c, res.blank))],
                rule |-> IF TabInCalls(r) THEN "NoTab"
                         ELSE IF ~Cur(mk) THEN "CursorOK"
                         ELSE IF ~Bot(mk) THEN "BottomOK"
                         ELSE IF ~GetOK(S1, r) THEN "GetOK"
                         ELSE ""]

Init == /\ i = 1 /\ S = <<>> /\ T = <<>> /\ dead = TRUE /\ bad = <<>> /\ st = St0
        /\ TLCSet(1, <<>>) /\ TLCSet(2, St0) /\ TLCSet(3, 1)

Next ==
    /\ i <= Len(Rec)
    /\ LET r == Rec[i] IN
       IF r.op = "init" THEN
            \E x \in {InitOf(r)} :
            /\ S' = x.S /\ T' = x.T /\ dead' = FALSE /\ bad' = bad
            /\ st' = [st EXCEPT !.recs = @ + 1, !.hists = @ + 1]
       ELSE IF dead THEN
            /\ UNCHANGED <<S, T, dead, bad>> /\ st' = [st EXCEPT !.recs = @ + 1]
       ELSE
            \E x \in {Step(S, T, r)} :      \* bound once: the step is evaluated a single time
            /\ S' = x.S /\ T' = x.T
            /\ dead' = (x.rule # "")
            /\ bad' = IF x.rule = "" THEN bad ELSE Append(bad, [h |-> r.h, i |-> r.i, rule |-> x.rule, op |-> r.op, exp |-> IF "exp" \in DOMAIN x THEN x.exp ELSE <<>>])
            /\ st' = IF ~x.m.p
                     THEN [st EXCEPT !.recs = @ + 1, !.quiet = @ + 1, !.logs = @ + (IF Len(S'.above) > Len(S.above) THEN 1 ELSE 0)]
                     ELSE [st EXCEPT !.recs = @ + 1, !.paints = @ + 1,
                                     !.forced = @ + (IF x.m.forced THEN 1 ELSE 0),
                                     !.cuts = @ + (IF x.m.cut THEN 1 ELSE 0),
                                     !.wrapped = @ + (IF x.m.wrapped THEN 1 ELSE 0),
                                     !.vanish = @ + x.m.v,
                                     !.statics = @ + (IF Statics(S') # {} THEN 1 ELSE 0),
                                     !.logs = @ + (IF x.m.log THEN 1 ELSE 0),
                                     !.bottomk = @ + (IF x.m.k > 0 THEN 1 ELSE 0)]
    /\ i' = i + 1
    /\ ("DEBUG" \in DOMAIN IOEnv => PrintT(<<"DBG", ToJson([i |-> Rec[i].i, op |-> Rec[i].op, dead |-> dead', order |-> S'.order, above |-> [j \in 1..Len(S'.above) |-> IF S'.above[j].k = "log" THEN S'.above[j].l ELSE <<S'.above[j].b>>], bars |-> [b \in DOMAIN S'.bars |-> [fin |-> S'.bars[b].fin, st |-> S'.bars[b].static, mv |-> S'.bars[b].mayVanish, vis |-> S'.bars[b].vis, drawn |-> S'.bars[b].drawn, pend |-> S'.bars[b].pend]]])>>))
    /\ TLCSet(1, bad') /\ TLCSet(2, st') /\ TLCSet(3, i')

Spec == Init /\ [][Next]_vars

Post == PrintT(<<"VERDICTS", ToJson([consumed |-> TLCGet(3) - 1, total |-> Len(Rec), bad |-> TLCGet(1), st |-> TLCGet(2)])>>)
=============================================================================
