------------------------------- MODULE Field -------------------------------
(***************************************************************************)
(* CONTRACT for property C12: width, alignment and truncation of a         *)
(* template placeholder, stated on cell sequences (Cells.tla: 1-column,    *)
(* 2-column and 0-column cells; the column width of a cell is an input     *)
(* fact supplied by the harness tokeniser).                                *)
(*                                                                         *)
(*   content s, width W, alignment al in {"<", "^", ">", ""} ("" = none    *)
(*   given = left), truncation flag tr                                     *)
(*                                                                         *)
(*   Cols(s) <= W        the field is s padded with blanks to exactly W    *)
(*                       columns on the side(s) given by the alignment;    *)
(*                       centre: the two pads differ by at most one (the   *)
(*                       property does not say which side gets the odd     *)
(*                       blank; the library gives the left floor(diff/2))  *)
(*   Cols(s) > W, ~tr    the field is s, unshortened                       *)
(*   Cols(s) > W, tr     the field keeps the W columns [lo, lo+W) of s,    *)
(*                       lo = 0 / excess / excess div 2 (or the other      *)
(*                       rounding) for left / right / centre.  Zero-width  *)
(*                       cells may be kept or dropped; a 2-column cell     *)
(*                       with one column inside the window may be dropped  *)
(*                       (the field is then one column short) or replaced  *)
(*                       by a blank.  Nothing else may appear.             *)
(*   wide_msg            a truncating field whose width is what the rest   *)
(*                       of the line leaves of the terminal width; when    *)
(*                       the field ends the line its trailing blanks may   *)
(*                       be omitted (they are invisible)                   *)
(***************************************************************************)
EXTENDS Cells, Integers, TLC

Vis(s) == SelectSeq(s, LAMBDA g : CW(g) > 0)
HasZW(s) == \E j \in 1..Len(s) : CW(s[j]) = 0

(* column at which cell j of s starts *)
ColAt(s, j) == Cols(SubSeq(s, 1, j - 1))

Min(a, b) == IF a <= b THEN a ELSE b
Max(a, b) == IF a >= b THEN a ELSE b
(* number of columns of cell j that lie inside the window [lo, hi) *)
Inside(s, j, lo, hi) == Max(0, Min(hi, ColAt(s, j) + CW(s[j])) - Max(lo, ColAt(s, j)))
Straddles(s, j, lo, hi) == CW(s[j]) = 2 /\ Inside(s, j, lo, hi) = 1
HasStraddler(s, lo, hi) == \E j \in 1..Len(s) : Straddles(s, j, lo, hi)

(* What may remain of s for the window [lo, hi): every zero-width cell, every cell entirely   *)
(* inside, and for a straddling cell a blank (bl: at the left edge, br: at the right edge) or  *)
(* nothing.                                                                                    *)
RECURSIVE KeepFrom(_, _, _, _, _, _)
KeepFrom(s, j, lo, hi, bl, br) ==
    IF j > Len(s) THEN <<>>
    ELSE (IF CW(s[j]) = 0 THEN <<s[j]>>
          ELSE IF Inside(s, j, lo, hi) = CW(s[j]) THEN <<s[j]>>
          ELSE IF Inside(s, j, lo, hi) = 0 THEN <<>>
          ELSE IF (ColAt(s, j) < lo /\ bl) \/ (ColAt(s, j) >= lo /\ br) THEN <<SP>>
          ELSE <<>>) \o KeepFrom(s, j + 1, lo, hi, bl, br)
Keep(s, lo, hi, bl, br) == KeepFrom(s, 1, lo, hi, bl, br)

(* a is a subsequence of b *)
RECURSIVE SubseqFrom(_, _, _, _)
SubseqFrom(a, i, b, j) ==
    IF i > Len(a) THEN TRUE
    ELSE IF j > Len(b) THEN FALSE
    ELSE IF a[i] = b[j] THEN SubseqFrom(a, i + 1, b, j + 1)
    ELSE SubseqFrom(a, i, b, j + 1)
IsSubseq(a, b) == SubseqFrom(a, 1, b, 1)

TruncWindowOK(F, s, lo, hi) ==
    \E bl, br \in BOOLEAN :
        \E k \in {Keep(s, lo, hi, bl, br)} : Vis(F) = Vis(k) /\ IsSubseq(F, k)

IsLeft(al) == al = "<" \/ al = ""
LeftPads(diff, al) == IF IsLeft(al) THEN {0} ELSE IF al = ">" THEN {diff} ELSE {diff \div 2, diff - diff \div 2}
Starts(excess, al) == IF IsLeft(al) THEN {0} ELSE IF al = ">" THEN {excess} ELSE {excess \div 2, excess - excess \div 2}

Fits(s, W) == Cols(s) <= W
PadOK(F, s, W, al) ==
    \E lp \in LeftPads(W - Cols(s), al) : F = Rep(SP, lp) \o s \o Rep(SP, W - Cols(s) - lp)
TruncOK(F, s, W, al) ==
    \E lo \in Starts(Cols(s) - W, al) : TruncWindowOK(F, s, lo, lo + W)

(* the contract of one field *)
FieldOK(F, s, W, al, tr) ==
    IF Fits(s, W) THEN PadOK(F, s, W, al)
    ELSE IF ~tr THEN F = s
    ELSE TruncOK(F, s, W, al)

(* number of trailing blanks of a sequence that ends at index n *)
RECURSIVE TrailSP(_, _)
TrailSP(F, n) == IF n = 0 \/ F[n] # SP THEN 0 ELSE 1 + TrailSP(F, n - 1)

(* A painted line pre ++ field ++ suf.  lastTrim: the field ends the line and the library may *)
(* have dropped its trailing blanks; then some blanks (at most W) can be put back.             *)
LineOK(line, pre, suf, s, W, al, tr, lastTrim) ==
    /\ Len(line) >= Len(pre) + Len(suf)
    /\ SubSeq(line, 1, Len(pre)) = pre
    /\ SubSeq(line, Len(line) - Len(suf) + 1, Len(line)) = suf
    /\ \E F \in {SubSeq(line, Len(pre) + 1, Len(line) - Len(suf))} :
          \/ FieldOK(F, s, W, al, tr)
          \/ /\ lastTrim /\ suf = <<>> /\ Fits(s, W)
             /\ \E n \in 1..(W - Cols(s)) : FieldOK(F \o Rep(SP, n), s, W, al, tr)

WideWidth(tw, pre, suf) == Max(0, tw - Cols(pre) - Cols(suf))

(***************************************************************************)
(* Reference rendering (design level, checked against the contract by      *)
(* MC_Field): column-aware slicing that keeps every zero-width cell and    *)
(* replaces a straddling 2-column cell by a blank.  This is what the       *)
(* repaired PaddedStringDisplay does.                                      *)
(***************************************************************************)
RefField(s, W, al, tr) ==
    LET cols == Cols(s) IN
    IF cols <= W THEN
        LET diff == W - cols
            lp == IF IsLeft(al) THEN 0 ELSE IF al = ">" THEN diff ELSE diff \div 2
        IN Rep(SP, lp) \o s \o Rep(SP, diff - lp)
    ELSE IF ~tr THEN s
    ELSE LET excess == cols - W
             lo == IF IsLeft(al) THEN 0 ELSE IF al = ">" THEN excess ELSE excess \div 2
         IN Keep(s, lo, lo + W, TRUE, TRUE)

(***************************************************************************)
(* The unrepaired code (defect D9), implementation-shaped: it computes the *)
(* slice bounds from COLUMN counts and applies them as BYTE offsets;       *)
(* str::get gives None off a character boundary and the whole string is    *)
(* written instead.  BW = bytes of a cell in UTF-8 (input fact of the      *)
(* alphabet: ASCII 1, e-acute 2, CJK 3, ESC [ 1 m 4).  A cut inside the    *)
(* escape sequence leaves its remaining bytes as visible garbage, shown    *)
(* here as the cell 63 ('?') per byte.                                     *)
(***************************************************************************)
BW(g) == IF g = 233 THEN 2 ELSE IF g >= 2000 THEN 4 ELSE IF g >= 1000 THEN 3 ELSE 1
RECURSIVE BytesFrom(_, _)
BytesFrom(s, j) == IF j > Len(s) THEN 0 ELSE BW(s[j]) + BytesFrom(s, j + 1)
Bytes(s) == BytesFrom(s, 1)
ByteAt(s, j) == Bytes(SubSeq(s, 1, j - 1))
IsBoundary(s, b) == b = Bytes(s) \/ \E j \in 1..Len(s) : ByteAt(s, j) = b \/ (s[j] >= 2000 /\ b > ByteAt(s, j) /\ b < ByteAt(s, j) + 4)
RECURSIVE ByteSliceFrom(_, _, _, _)
ByteSliceFrom(s, j, b0, b1) ==
    IF j > Len(s) THEN <<>>
    ELSE LET a == ByteAt(s, j)
             z == a + BW(s[j])
             n == Max(0, Min(b1, z) - Max(b0, a))
         IN (IF n = BW(s[j]) THEN <<s[j]>> ELSE Rep(63, n)) \o ByteSliceFrom(s, j + 1, b0, b1)
OldField(s, W, al, tr) ==
    LET cols == Cols(s) IN
    IF cols <= W \/ ~tr THEN RefField(s, W, al, tr)
    ELSE LET excess == cols - W
             b0 == IF IsLeft(al) THEN 0 ELSE IF al = ">" THEN excess ELSE excess \div 2
             b1 == IF IsLeft(al) THEN Bytes(s) - excess ELSE IF al = ">" THEN Bytes(s) ELSE Bytes(s) - (excess - excess \div 2)
         IN IF b0 <= b1 /\ IsBoundary(s, b0) /\ IsBoundary(s, b1) THEN ByteSliceFrom(s, 1, b0, b1) ELSE s
=============================================================================
