-------------------------- MODULE MC_TemplateParser --------------------------
(***************************************************************************)
(* TLC explores the implementation-shaped parser model (TemplateParser)    *)
(* over one representative character per class and prints strings for the  *)
(* no-panic part of C10:                                                   *)
(*   Mode = "cover"  one shortest string per reachable abstract transition *)
(*                   (source state, class, target state, buffer kind, last *)
(*                   part kind)  - VIEW CoverView - or per pair of         *)
(*                   consecutive transitions - VIEW CoverView2 (a buffer   *)
(*                   is only interpreted when its state is left, so what   *)
(*                   was read last must be followed by every class) -      *)
(*                   each printed with                                     *)
(*                   three re-instantiations of its classes (other white-  *)
(*                   space, digits, alignments, wide / combining / random  *)
(*                   Unicode characters);                                  *)
(*   Mode = "all"    every class string of length <= N (no VIEW), printed  *)
(*                   as one behaviour per prefix with its 12 extensions;   *)
(*   Mode = "soup"   NSoup behaviours of 32 seeded random strings each     *)
(*                   (the driver derives the characters from the seed).    *)
(* Invariant Total = the model never reaches the "panic" pseudo-state      *)
(* (design level; with WidthOverflow = "panic" TLC shows {a:99999} ).      *)
(***************************************************************************)
EXTENDS TemplateParser, Json, TLC
CONSTANTS Mode, N, Seed, NSoup
VARIABLES str, ps, prevSt, lastCl, prev2St, prevCl, done
vars == <<str, ps, prevSt, lastCl, prev2St, prevCl, done>>

Reps == {123, 125, 10, 32, 58, 33, 60, 57, 46, 47, 97, 233}
RepSeq == <<123, 125, 10, 32, 58, 33, 60, 57, 46, 47, 97, 233>>
Var1(c) == CASE c = 32 -> 9 [] c = 60 -> 94 [] c = 57 -> 48 [] c = 97 -> 95 [] c = 233 -> 1000 [] OTHER -> c
Var2(c) == CASE c = 32 -> 13 [] c = 60 -> 62 [] c = 57 -> 54 [] c = 97 -> 34 [] c = 233 -> 2001 [] OTHER -> c
Var3(c) == CASE c = 32 -> 12 [] c = 97 -> 997 [] c = 233 -> 998 [] OTHER -> c
Env0 == [k |-> <<>>, pos |-> 0, len |-> 0, msg |-> <<>>, prefix |-> <<>>]
Tpl(s) == [op |-> "tpl", tpl |-> s, wf |-> FALSE, items |-> <<>>, env |-> Env0, tw |-> 80, colors |-> FALSE]

Init == /\ str = <<>> /\ ps = PInit /\ prevSt = "none" /\ lastCl = "none" /\ prev2St = "none" /\ prevCl = "none" /\ done = FALSE
Step == /\ ~done /\ Mode # "soup"
        /\ Len(str) < (IF Mode = "all" THEN N - 1 ELSE N)
        /\ (Mode = "cover" => ~Halted(ps))
        /\ \E c \in Reps : /\ str' = Append(str, c) /\ ps' = PStep(ps, c)
                           /\ prevSt' = ps.st /\ lastCl' = Class(c) /\ prev2St' = prevSt /\ prevCl' = lastCl
        /\ UNCHANGED done
Emit == /\ ~done
        /\ CASE Mode = "cover" -> str # <<>> /\
                  PrintT(<<"REPLAY", ToJson([ops |-> <<Tpl(str), Tpl([j \in 1..Len(str) |-> Var1(str[j])]),
                                                       Tpl([j \in 1..Len(str) |-> Var2(str[j])]), Tpl([j \in 1..Len(str) |-> Var3(str[j])])>>])>>)
             [] Mode = "all" -> PrintT(<<"REPLAY", ToJson([ops |-> [j \in 1..12 |-> Tpl(Append(str, RepSeq[j]))]])>>)
             [] OTHER -> \A b \in 1..NSoup :
                  PrintT(<<"REPLAY", ToJson([ops |-> [j \in 1..32 |-> [op |-> "soup", seed |-> Seed * 100000 + b * 100 + j, len |-> 2 * j]]])>>)
        /\ done' = TRUE /\ UNCHANGED <<str, ps, prevSt, lastCl, prev2St, prevCl>>
Next == Step \/ Emit
Spec == Init /\ [][Next]_vars

NumLen == IF ps.st = "Width" THEN (IF Len(ps.buf) > 6 THEN 6 ELSE Len(ps.buf)) ELSE 0
CoverView == <<prevSt, lastCl, ps.st, BufKind(ps), NumLen, LastKind(ps), done>>                          \* transition cover
CoverView2 == <<prev2St, prevCl, prevSt, lastCl, ps.st, BufKind(ps), NumLen, LastKind(ps), done>>      \* cover of pairs of consecutive transitions
TypeOK == ps.st \in {"Literal", "MaybeOpen", "DoubleClose", "Key", "Align", "Width", "FirstStyle", "AltStyle", "err", "panic"}
Total == ps.st # "panic"
=============================================================================
