----------------------------- MODULE MC_Formats -----------------------------
(* Input generator for C15.  TLC enumerates the boundary inputs of the       *)
(* formatters; one behaviour per input group.  Families (constant Fam):      *)
(*  "u64"    every digit length 1..20 with leading digits 1 and 9 (and the   *)
(*           all-nines value), every 1000^k and 1024^k and their neighbours, *)
(*           two-decimal rounding ties of the byte formatters +- 1, 2^53     *)
(*           and 2^64 edges; each value goes through HumanCount, HumanBytes, *)
(*           BinaryBytes, DecimalBytes, FormattedDuration, HumanDuration     *)
(*  "dur"    per unit the increasing sequence of HumanDuration boundaries    *)
(*           {1.5 units - half the next unit, (n + 1/2) units : n = 2..NMax} *)
(*           each at -1 ms, exactly, +1 ms; plain and alternate form; plus   *)
(*           the extremes up to Duration::MAX                                *)
(*  "float"  decimal literals sign x mantissa x 10^e x precision, and the    *)
(*           named special values (NaN, infinities, zeros, subnormal, MAX)   *)
(*  "rnd"    seeds for the driver's pseudo-random u64 / f64 / Duration part  *)
EXTENDS U64, Json, TLC, FiniteSets
CONSTANTS Fam, Ps, Es, NMax, RndCount, Salts
VARIABLES hist, done
vars == <<hist, done>>

Pad5(a) == <<Limb(a, 1), Limb(a, 2), Limb(a, 3), Limb(a, 4), Limb(a, 5)>>
RECURSIVE PowL(_, _)
PowL(b, k) == IF k = 0 THEN <<1>> ELSE MulSmall(PowL(b, k - 1), b)
One == <<1>>
InU64(a) == Le(a, MaxU64)
Around(a) == {Sub(a, One), a, Add(a, One)}

DigitEdges == UNION { {PowL(10, L - 1), MulSmall(PowL(10, L - 1), 9), Sub(PowL(10, L), One), Sub(MulSmall(PowL(10, L - 1), 2), One)} : L \in 1..20 }
PowEdges == UNION { Around(PowL(1000, k)) \cup Around(PowL(1024, k)) : k \in 1..6 }
TieEdges == UNION { Around(MulSmall(PowL(1000, k - 1), 1005)) \cup Around(Mul(PowL(1000, k - 1), FromSmall(999995))) \cup
                    Around(Mul(PowL(1024, k - 1), FromSmall(1023995))) \cup Around(MulSmall(PowL(1024, k), 1023)) : k \in 1..5 }
P53 == <<0, 0, 0, 256>>
BigEdges == Around(P53) \cup Around(<<0, 0, 0, 0, 8>>) \cup {MaxU64, Sub(MaxU64, One), Sub(MaxU64, <<1024>>), <<0>>, <<1023>>, <<999>>, <<59>>, <<60>>, <<3599>>, <<86399 % B, 86399 \div B>>, <<86400 % B, 86400 \div B>>}
U64Values == { Pad5(v) : v \in { x \in DigitEdges \cup PowEdges \cup TieEdges \cup BigEdges : InU64(x) } }

U64Behaviour(v) == << [op |-> "hc", n |-> v], [op |-> "hb", n |-> v], [op |-> "bb", n |-> v], [op |-> "db", n |-> v],
                      [op |-> "fd", secs |-> v, nanos |-> 0], [op |-> "fd", secs |-> v, nanos |-> 999999999],
                      [op |-> "hd", secs |-> v, nanos |-> 0], [op |-> "hda", secs |-> v, nanos |-> 999999999] >>

(* HumanDuration boundaries in milliseconds *)
UnitSecs == <<31536000, 604800, 86400, 3600, 60, 1>>
UnitMs(j) == MulSmall(FromSmall(UnitSecs[j]), 1000)
Half(a) == DivMod(a, 2).q
Switch(j) == Sub(Add(UnitMs(j), Half(UnitMs(j))), Half(UnitMs(j + 1)))        \* 1.5 units - half the next unit
HalfPoint(j, n) == Add(Mul(UnitMs(j), <<n>>), Half(UnitMs(j)))                \* (n + 1/2) units
DurOp(nm, ms) == LET dm == DivMod(ms, 1000) IN [op |-> nm, secs |-> Pad5(dm.q), nanos |-> dm.r * 1000000]
Triple(nm, ms) == <<DurOp(nm, Sub(ms, One)), DurOp(nm, ms), DurOp(nm, Add(ms, One))>>
RECURSIVE Halves(_, _, _)
Halves(nm, j, n) == IF n > NMax THEN <<>> ELSE Triple(nm, HalfPoint(j, n)) \o Halves(nm, j, n + 1)
DurBehaviour(nm, j) ==
    IF j < 6 THEN Triple(nm, Switch(j)) \o Halves(nm, j, 2)
    ELSE <<DurOp(nm, <<0>>), DurOp(nm, <<1>>)>> \o Halves(nm, j, 0)
Extremes(nm) == << [op |-> nm, secs |-> Zero, nanos |-> 0], [op |-> nm, secs |-> Zero, nanos |-> 1], [op |-> nm, secs |-> Zero, nanos |-> 499999999],
                   [op |-> nm, secs |-> Zero, nanos |-> 500000000], [op |-> nm, secs |-> Pad5(P53), nanos |-> 0], [op |-> nm, secs |-> Pad5(Add(P53, One)), nanos |-> 999999999],
                   [op |-> nm, secs |-> Sub(MaxU64, One), nanos |-> 999999999], [op |-> nm, secs |-> MaxU64, nanos |-> 0],
                   [op |-> nm, secs |-> MaxU64, nanos |-> 999999998], [op |-> nm, secs |-> MaxU64, nanos |-> 999999999] >>
(* all switch points in one increasing sequence (unit changes only) *)
RECURSIVE Switches(_, _)
Switches(nm, j) == IF j = 0 THEN <<>> ELSE Triple(nm, Switch(j)) \o Switches(nm, j - 1)

(* decimal literals for HumanFloatCount *)
Mantissas == { <<49>>, <<57>>, <<53>>, <<49, 53>>, <<50, 53>>, <<49, 50, 51, 52, 57>>, <<49, 50, 51, 52, 53>>, <<57, 57, 57, 57, 53>>, <<57, 57, 57, 57, 57, 57>>,
               <<52, 57, 57, 57>>, <<53, 48, 48, 49>>, <<49, 50, 51, 52, 53, 54, 55, 56, 57, 48, 49, 50, 51, 52, 53, 54, 55, 56, 57>> }
RECURSIVE DecS(_)
DecS(n) == IF n < 10 THEN <<48 + n>> ELSE Append(DecS(n \div 10), 48 + (n % 10))
Lit(neg, m, e) == (IF neg THEN <<45>> ELSE <<>>) \o m \o <<101>> \o (IF e < 0 THEN <<45>> \o DecS(0 - e) ELSE DecS(e))
RECURSIVE SeqOf(_)
SeqOf(S) == IF S = {} THEN <<>> ELSE LET x == CHOOSE y \in S : TRUE IN <<x>> \o SeqOf(S \ {x})
(* the configuration file cannot hold negative numbers: exponents are given offset by 400, precision 99 = none given *)
Prec(p) == IF p = 99 THEN 0 - 1 ELSE p
FloatBehaviour(neg, m) == SeqOf({ [op |-> "hf", lit |-> Lit(neg, m, e - 400), sp |-> "", p |-> Prec(p)] : e \in Es, p \in Ps })
Specials == {"nan", "inf", "-inf", "-0", "0", "min_pos", "-min_pos", "max", "-max", "min_normal", "eps", "2p53", "-2p53"}
SpecialBehaviour == SeqOf({ [op |-> "hf", lit |-> <<>>, sp |-> s, p |-> Prec(p)] : s \in Specials, p \in Ps })

Behaviours ==
    CASE Fam = "u64" -> { U64Behaviour(v) : v \in U64Values }
      [] Fam = "dur" -> { DurBehaviour(nm, j) : nm \in {"hd", "hda"}, j \in 1..6 } \cup { Extremes(nm) : nm \in {"hd", "hda", "fd"} } \cup { Switches(nm, 5) : nm \in {"hd", "hda"} }
      [] Fam = "float" -> { FloatBehaviour(neg, m) : neg \in BOOLEAN, m \in Mantissas } \cup {SpecialBehaviour}
      [] Fam = "rnd" -> { <<[op |-> "rnd", kind |-> k, count |-> RndCount, salt |-> s]>> : k \in {"u64", "f64", "dur"}, s \in Salts }

Init == hist \in Behaviours /\ done = FALSE
Emit == /\ ~done
        /\ PrintT(<<"REPLAY", ToJson([fam |-> Fam, ops |-> hist])>>)
        /\ done' = TRUE /\ UNCHANGED hist
Next == Emit
Spec == Init /\ [][Next]_vars
TypeOK == done \in BOOLEAN
=============================================================================
