-------------------------------- MODULE Term --------------------------------
(***************************************************************************)
(* Terminal semantics as pure operators on a record                        *)
(*   [w, h, rows, top, r, c]                                               *)
(* rows : all rows ever used (scrollback + viewport), each a sequence of   *)
(*        w slots: 0 blank, g > 0 glyph, -1 right half of a 2-column glyph *)
(* top  : index of the first viewport row; the viewport is top..top+h-1    *)
(* r, c : cursor row (absolute index into rows) and column 0..w; c = w     *)
(*        means "wrap pending" (deferred wrap of xterm-like terminals)     *)
(* This is the behaviour of console::Term on an xterm-like terminal and of *)
(* the vt100 crate behind indicatif's InMemoryTerm; MC_Term/conformance    *)
(* binds it to that emulator.                                              *)
(***************************************************************************)
EXTENDS Cells, Integers

BlankRow(w) == [j \in 1..w |-> 0]

TInit(w, h) == [w |-> w, h |-> h, rows |-> <<BlankRow(w)>>, top |-> 1, r |-> 1, c |-> 0]

RECURSIVE Grow(_, _)
Grow(t, n) == IF Len(t.rows) >= n THEN t ELSE Grow([t EXCEPT !.rows = Append(@, BlankRow(t.w))], n)

(* Line feed: one row down, scrolling the viewport when at its bottom.     *)
LF(t) ==
    LET r2 == t.r + 1
        top2 == IF r2 > t.top + t.h - 1 THEN t.top + 1 ELSE t.top
    IN Grow([t EXCEPT !.r = r2, !.top = top2, !.c = IF t.c >= t.w THEN t.w - 1 ELSE t.c], r2)

CRet(t) == [t EXCEPT !.c = 0]

Max(a, b) == IF a >= b THEN a ELSE b
Min(a, b) == IF a <= b THEN a ELSE b

(* Cursor up / down clamp at the viewport edges.  The column, including a  *)
(* pending wrap, is kept: that is what the vt100 emulator does; xterm      *)
(* cancels the pending wrap instead.  The library always sends a carriage  *)
(* return after a vertical move, so the two never differ on its output.    *)
Up(t, n) == IF n = 0 THEN t
            ELSE [t EXCEPT !.r = Max(t.top, t.r - n)]
Down(t, n) == IF n = 0 THEN t
              ELSE LET r2 == Min(t.top + t.h - 1, t.r + n)
                   IN Grow([t EXCEPT !.r = r2], r2)
Left(t, n) == IF n = 0 THEN t ELSE [t EXCEPT !.c = Max(0, Min(t.c, t.w - 1) - n)]
Right(t, n) == IF n = 0 THEN t ELSE [t EXCEPT !.c = Min(t.w - 1, Min(t.c, t.w - 1) + n)]

(* clear_line of console / InMemoryTerm: "\r" followed by erase-line.      *)
Clear(t) == [t EXCEPT !.rows[t.r] = BlankRow(t.w), !.c = 0]

(* Store glyph g of width k >= 1 at the cursor, wrapping first if it does  *)
(* not fit (a 2-column glyph never straddles the right edge).              *)
SetSlot(row, j, v) == [row EXCEPT ![j] = v]
WipeAt(row, j, w) ==
    (* overwriting one half of a wide glyph blanks the other half *)
    LET r1 == IF row[j] = -1 /\ j > 1 THEN SetSlot(row, j - 1, 0) ELSE row
        r2 == IF j < w /\ r1[j + 1] = -1 /\ r1[j] > 0 THEN SetSlot(r1, j + 1, 0) ELSE r1
    IN r2
PutGlyph(t, g) ==
    LET k == CW(g)
        t1 == IF t.c + k > t.w THEN CRet(LF(t)) ELSE t
        j == t1.c + 1
        row0 == t1.rows[t1.r]
        rowA == SetSlot(WipeAt(row0, j, t1.w), j, IF g = SP THEN 0 ELSE g)   \* a space is a blank slot
        rowB == IF k = 2 /\ j < t1.w THEN SetSlot(WipeAt(rowA, j + 1, t1.w), j + 1, -1) ELSE rowA
    IN [t1 EXCEPT !.rows[t1.r] = rowB, !.c = t1.c + k]

PutCell(t, g) ==
    IF g = NL THEN CRet(LF(t))          \* a tty translates LF to CR LF (ONLCR)
    ELSE IF g = CR THEN CRet(t)
    ELSE IF g = TAB THEN [t EXCEPT !.c = Min(t.w - 1, ((Min(t.c, t.w - 1) \div 8) + 1) * 8)]
    ELSE IF CW(g) = 0 THEN t
    ELSE PutGlyph(t, g)

RECURSIVE StrFrom(_, _, _)
StrFrom(t, s, i) == IF i > Len(s) THEN t ELSE StrFrom(PutCell(t, s[i]), s, i + 1)

(* Fast path (an optimisation of the evaluation, same meaning): a run of   *)
(* one-column glyphs stored into blank slots of the current row is written *)
(* in one step; longer runs are cut at the right edge and continue on the  *)
(* next row exactly as the glyph-by-glyph rule would.                      *)
Narrow(s, a, b) == \A j \in a..b : s[j] >= 32 /\ s[j] < 1000
FreeSlots(t, n) == /\ \A j \in (t.c + 1)..(t.c + n) : t.rows[t.r][j] = 0
                   /\ (t.c + n < t.w => t.rows[t.r][t.c + n + 1] # -1)
RECURSIVE StrRun(_, _, _)
StrRun(t, s, i) ==
    IF i > Len(s) THEN t
    ELSE IF t.c >= t.w THEN StrRun(PutCell(t, s[i]), s, i + 1)
    ELSE LET n == Min(Len(s) - i + 1, t.w - t.c) IN
         IF FreeSlots(t, n)
         THEN StrRun([t EXCEPT !.rows[t.r] = [j \in 1..t.w |-> IF j > t.c /\ j <= t.c + n
                                                              THEN (IF s[i + j - t.c - 1] = SP THEN 0 ELSE s[i + j - t.c - 1])
                                                              ELSE t.rows[t.r][j]],
                                 !.c = t.c + n], s, i + n)
         ELSE StrRun(PutCell(t, s[i]), s, i + 1)
Str(t, s) == IF s = <<>> THEN t
             ELSE IF Narrow(s, 1, Len(s)) THEN StrRun(t, s, 1)
             ELSE StrFrom(t, s, 1)
Line(t, s) == CRet(LF(Str(t, s)))

(* One logged TermLike call: [k |-> kind, n |-> count, c |-> cells].       *)
Call(t, x) ==
    CASE x.k = "up" -> Up(t, x.n)
      [] x.k = "down" -> Down(t, x.n)
      [] x.k = "left" -> Left(t, x.n)
      [] x.k = "right" -> Right(t, x.n)
      [] x.k = "str" -> Str(t, x.c)
      [] x.k = "line" -> Line(t, x.c)
      [] x.k = "clear" -> Clear(t)
      [] OTHER -> t                      \* flush

RECURSIVE CallsFrom(_, _, _)
CallsFrom(t, xs, i) == IF i > Len(xs) THEN t ELSE CallsFrom(Call(t, xs[i]), xs, i + 1)
Calls(t, xs) == CallsFrom(t, xs, 1)

IsBlank(row) == \A j \in 1..Len(row) : row[j] = 0

RECURSIVE TrimRows(_)
TrimRows(rows) == IF rows # <<>> /\ IsBlank(rows[Len(rows)]) THEN TrimRows(SubSeq(rows, 1, Len(rows) - 1)) ELSE rows

(* All rows, scrollback included, without trailing blank rows.             *)
AllRows(t) == TrimRows(t.rows)

(* Where the next ordinary glyph would be stored.                          *)
NextPrint(t) == IF t.c >= t.w THEN <<t.r + 1, 0>> ELSE <<t.r, t.c>>

(* Lay out a sequence of lines on an unbounded terminal of width w: this   *)
(* is "the lines, wrapped at the terminal width".                          *)
RECURSIVE LinesFrom(_, _, _)
LinesFrom(t, ls, i) == IF i > Len(ls) THEN t ELSE LinesFrom(Line(t, ls[i]), ls, i + 1)
Layout(ls, w) == LinesFrom(TInit(w, 1000000), ls, 1)
(* rows used by the lines (the cursor ends on the row after the last one)  *)
RowsOf(ls, w) == Layout(ls, w).r - 1
LineRows(l, w) == RowsOf(<<l>>, w)
=============================================================================
