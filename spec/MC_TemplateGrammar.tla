------------------------- MODULE MC_TemplateGrammar -------------------------
(***************************************************************************)
(* Generator for C10 (fidelity part): enumerates the well-formed templates *)
(* of TemplateGrammar.tla built from up to D pieces (at most MaxPh of them *)
(* placeholders) over the piece alphabet selected by the constants, and    *)
(* prints each as a replayable behaviour {tpl, items, env, tw}.            *)
(*                                                                         *)
(* Design level: on every generated template the implementation-shaped     *)
(* parser model (TemplateParser.tla) must produce the parts the grammar    *)
(* says (DesignOK).  With Backtrack = "orig" TLC reports the counter-      *)
(* example  a{<space>  (D8); with WidthOverflow = "panic" the template     *)
(* {k:65536} (D7).                                                         *)
(***************************************************************************)
EXTENDS TemplateGrammar, Json, TLC
CONSTANTS D, MaxPh,
          LitChars,      \* set of cells usable as literal characters
          Specials,      \* subset of {"LB", "RB", "NL", "BS", "BN"}:  {{  }}  newline  '{'+space  '{'+newline
          Keys,          \* subset of {"k", "zz", "pos", "len", "msg", "prefix", "Zz9"} and of the near-miss names in KeyCells
          Colons,        \* subset of {"auto", "always"}: "always" also writes the colon of an empty format spec
          Aligns,        \* subset of {"", "<", "^", ">"}
          Widths,        \* subset of {"", "0", "1", "3", "05", "65535", "65536", "99999999999"}
          Truncs,        \* subset of BOOLEAN
          Styles,        \* subset of {"", "r", "rb", "x", "u", "ub", "ru"}:  none  .red  .red/blue  .bold.on_blue  .italic  .orange/blue  .red.sparkly/grey
          Colors,        \* TRUE: the driver enables colours (the monitor drops zero-width cells)
          BacktrackMode, OverflowMode
VARIABLES cells, items, np, nph, done
vars == <<cells, items, np, nph, done>>

P == INSTANCE TemplateParser WITH WidthOverflow <- OverflowMode, Backtrack <- BacktrackMode

KeyCells(k) == CASE k = "k" -> <<107>> [] k = "zz" -> <<122, 122>> [] k = "pos" -> K_pos [] k = "len" -> K_len
                 [] k = "msg" -> K_msg [] k = "wide_msg" -> K_wide_msg [] k = "wide_bar" -> K_wide_bar [] k = "prefix" -> K_prefix [] k = "Zz9" -> <<90, 122, 57>>
                 (* unknown keys that contain a documented key: a prefix, a suffix or another letter case must not make them known *)
                 [] k = "binary_pos" -> <<98, 105, 110, 97, 114, 121, 95, 112, 111, 115>> [] k = "human_msg" -> <<104, 117, 109, 97, 110, 95, 109, 115, 103>> [] k = "pos_" -> <<112, 111, 115, 95>> [] k = "xmsg" -> <<120, 109, 115, 103>> [] k = "len2" -> <<108, 101, 110, 50>> [] k = "decimal_len" -> <<100, 101, 99, 105, 109, 97, 108, 95, 108, 101, 110>> [] k = "msgs" -> <<109, 115, 103, 115>> [] k = "wide_pos" -> <<119, 105, 100, 101, 95, 112, 111, 115>> [] k = "total_pos" -> <<116, 111, 116, 97, 108, 95, 112, 111, 115>> [] k = "pos_precise" -> <<112, 111, 115, 95, 112, 114, 101, 99, 105, 115, 101>> [] k = "per_sec_pos" -> <<112, 101, 114, 95, 115, 101, 99, 95, 112, 111, 115>> [] k = "Pos" -> <<80, 111, 115>> [] k = "wide_prefix" -> <<119, 105, 100, 101, 95, 112, 114, 101, 102, 105, 120>> [] k = "binary_msg" -> <<98, 105, 110, 97, 114, 121, 95, 109, 115, 103>>
                 [] OTHER -> <<113>>
AlignCell(a) == CASE a = "<" -> 60 [] a = "^" -> 94 [] a = ">" -> 62 [] OTHER -> 0
WidthCells(w) == CASE w = "0" -> <<48>> [] w = "1" -> <<49>> [] w = "3" -> <<51>> [] w = "05" -> <<48, 53>>
                   [] w = "65535" -> <<54, 53, 53, 51, 53>> [] w = "65536" -> <<54, 53, 53, 51, 54>>
                   [] w = "99999999999" -> [j \in 1..11 |-> 57] [] OTHER -> <<>>
StyleCells(s) == CASE s = "r" -> <<<<114, 101, 100>>, <<>>>>
                   [] s = "rb" -> <<<<114, 101, 100>>, <<98, 108, 117, 101>>>>
                   [] s = "x" -> <<<<98, 111, 108, 100, 46, 111, 110, 95, 98, 108, 117, 101>>, <<>>>>          \* .bold.on_blue
                   (* style words the colour library does not know: they set nothing and leave nothing behind *)
                   [] s = "u" -> <<<<105, 116, 97, 108, 105, 99>>, <<>>>>                                  \* .italic
                   [] s = "ub" -> <<<<111, 114, 97, 110, 103, 101>>, <<98, 108, 117, 101>>>>          \* .orange/blue
                   [] s = "ru" -> <<<<114, 101, 100, 46, 115, 112, 97, 114, 107, 108, 121>>, <<103, 114, 101, 121>>>>          \* .red.sparkly/grey
                   [] OTHER -> <<<<>>, <<>>>>

SpecialPiece(s) == CASE s = "LB" -> PcOpenEsc [] s = "RB" -> PcCloseEsc [] s = "NL" -> PcNewLine
                     [] s = "BS" -> PcOpenWs(32) [] s = "BT" -> PcOpenWs(9) [] OTHER -> PcOpenWs(10)          \* BT: an opening brace followed by a TAB
PhPieces == {PcPlaceholder(KeyCells(k), c = "always", AlignCell(a), WidthCells(w), t, StyleCells(s)[1], StyleCells(s)[2]) :
                k \in Keys, c \in Colons, a \in Aligns, w \in Widths, t \in Truncs, s \in Styles}
PlainPieces == {PcLit(c) : c \in LitChars} \cup {SpecialPiece(s) : s \in Specials}

Env == [k |-> <<75, 86>>, pos |-> 3, len |-> 7, msg |-> <<77, 103>>, prefix |-> <<80, 120>>]    \* "KV" 3 7 "Mg" "Px"
WideTerm == \E j \in 1..Len(items) : items[j].k = "ph" /\ items[j].hasw /\ Len(items[j].w) >= 4

IsWide(its) == \E j \in 1..Len(its) : its[j].k = "ph" /\ its[j].text \in {K_wide_msg, K_wide_bar}
IsNl(it) == it.k = "nl" \/ (it.k = "lit" /\ \E c \in 1..Len(it.text) : it.text[c] = 10)
LastNl(its) == IF \E j \in 1..Len(its) : IsNl(its[j]) THEN CHOOSE j \in 1..Len(its) : IsNl(its[j]) /\ \A q \in (j + 1)..Len(its) : ~IsNl(its[q]) ELSE 0
WideOnLastLine(its) == IsWide(SubSeq(its, LastNl(its) + 1, Len(its)))

Init == cells = <<>> /\ items = <<>> /\ np = 0 /\ nph = 0 /\ done = FALSE
Step == /\ np < D /\ ~done
        /\ \/ \E p \in PlainPieces : cells' = cells \o p[1] /\ items' = items \o p[2] /\ nph' = nph
           (* RESTRICTION: at most one wide element per template line (what two of them on one line share is not specified) *)
           \/ nph < MaxPh /\ \E p \in {q \in PhPieces : IsWide(q[2]) => ~WideOnLastLine(items)} :
                                  cells' = cells \o p[1] /\ items' = items \o p[2] /\ nph' = nph + 1
        /\ np' = np + 1 /\ UNCHANGED done
Emit == /\ ~done
        /\ PrintT(<<"REPLAY", ToJson([ops |-> <<[op |-> "tpl", tpl |-> cells, wf |-> TRUE, items |-> items, env |-> Env,
                                                 tw |-> IF WideTerm THEN 65535 ELSE 80, colors |-> Colors]>>])>>)
        /\ done' = TRUE /\ UNCHANGED <<cells, items, np, nph>>
Next == Step \/ Emit
Spec == Init /\ [][Next]_vars

TypeOK == np <= D /\ nph <= MaxPh
(* design level: the parser model agrees with the grammar on every generated template *)
DesignOK == LET r == P!Parse(cells) IN
            IF HasBigWidth(items) THEN r.res \in {"ok", "err"}
            ELSE r.res = "ok" /\ Canon(r.parts, 1, <<>>) = Canon(items, 1, <<>>)
=============================================================================
