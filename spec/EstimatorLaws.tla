--------------------------- MODULE EstimatorLaws ---------------------------
(***************************************************************************)
(* CONTRACT for the rate / ETA estimator (C09).  TLC has no real           *)
(* arithmetic, so the exponential weighting itself is not modelled; what   *)
(* is modelled is the history structure the laws quantify over, and the    *)
(* laws, on exact naturals (U64 limbs):                                    *)
(*   epoch    the segments [dn steps, dt ns] recorded since the last       *)
(*            reset / reset_eta / backwards seek                           *)
(*   a reported rate is logged as m * 10^(e-15) steps/s with m < 10^16     *)
(*   (the 16 significant digits of the f64), durations as ns               *)
(* Tolerance: eps = 10^-6 relative.                                        *)
(***************************************************************************)
EXTENDS U64, Sequences, TLC

RECURSIVE Pow10(_)
Pow10(k) == IF k = 0 THEN <<1>> ELSE MulSmall(Pow10(k - 1), 10)

(* rate value [m, e] means m * 10^(e - 315) (the logged exponent is offset by 300).  Compare rate * A with B * 10^9   *)
(* (A in ns, B in steps), i.e. rate = B / (A ns), within eps:                 *)
(*   | m * A * 10^(e-15) - B * 10^9 | <= eps * B * 10^9                       *)
(* both sides are multiplied by 10^k to clear negative exponents.            *)
Lhs(rate, A) == LET x == Mul(rate.m, A) IN IF rate.e >= 315 THEN Mul(x, Pow10(rate.e - 315)) ELSE x
Rhs(rate, Bv) == LET y == Mul(Bv, Pow10(9)) IN IF rate.e >= 315 THEN y ELSE Mul(y, Pow10(315 - rate.e))
(* rate * A(ns) ~ Bv (steps) within 10^-6 *)
RateIs(rate, A, Bv) == Le(Mul(AbsDiff(Lhs(rate, A), Rhs(rate, Bv)), Pow10(6)), Rhs(rate, Bv))
(* rate * A(ns) <= Bv * (1 + 10^-6) *)
RateLe(rate, A, Bv) == Le(Mul(Lhs(rate, A), Pow10(6)), Mul(Rhs(rate, Bv), Add(Pow10(6), <<1>>)))
IsZeroRate(rate) == IsZero(rate.m)

(* r1 <= r2 * (1 + 10^-9) for two logged rates *)
Norm(rate, emin) == Mul(rate.m, Pow10(rate.e - emin))
RLe(r1, r2) == LET emin == IF r1.e <= r2.e THEN r1.e ELSE r2.e IN
               Le(Mul(Norm(r1, emin), Pow10(9)), Mul(Norm(r2, emin), Add(Pow10(9), <<1>>)))
RNear(r1, r2) == LET emin == IF r1.e <= r2.e THEN r1.e ELSE r2.e IN
                 Le(Mul(AbsDiff(Norm(r1, emin), Norm(r2, emin)), Pow10(6)), IF Le(Norm(r1, emin), Norm(r2, emin)) THEN Norm(r2, emin) ELSE Norm(r1, emin))

(* segment rates are compared as fractions dn/dt by cross-multiplication *)
SegLe(s1, s2) == Le(Mul(s1.dn, s2.dt), Mul(s2.dn, s1.dt))
SegEq(s1, s2) == Eq(Mul(s1.dn, s2.dt), Mul(s2.dn, s1.dt))
RECURSIVE MaxSeg(_, _)
MaxSeg(segs, j) == IF j = 1 THEN segs[1] ELSE LET m == MaxSeg(segs, j - 1) IN IF SegLe(m, segs[j]) THEN segs[j] ELSE m
Steady(segs) == segs # <<>> /\ \A j \in 1..Len(segs) : SegEq(segs[1], segs[j])
=============================================================================
