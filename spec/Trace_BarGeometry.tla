-------------------------- MODULE Trace_BarGeometry --------------------------
(* MONITOR for C13: a history is a `new` record (configuration) followed by  *)
(* `pos` records carrying the line the real library painted for that         *)
(* position (harness `bargeom`).  Every painted bar is judged against        *)
(* BarGeometry: cell count, layout, filled count, head, monotonicity in the  *)
(* position, and for wide_bar the width of the whole line.                   *)
EXTENDS BarGeometry, Json, IOUtils
Rec == ndJsonDeserialize(IOEnv.TRACE)
VARIABLES i, C, lo, dead, bad, st
vars == <<i, C, lo, dead, bad, st>>
St0 == [recs |-> 0, hists |-> 0, bars |-> 0, empty |-> 0, full |-> 0, partial |-> 0, heads |-> 0, integral_q |-> 0, integral_q_minus1 |-> 0, tolerance_used |-> 0,
        two_col |-> 0, fine_grained |-> 0, unknown_len |-> 0, big_len |-> 0, wide |-> 0, wide_fits |-> 0, wide_exact |-> 0, wide_overfull |-> 0, zero_cells |-> 0, monotone_steps |-> 0]
C0 == [kind |-> "bar", n |-> 0, c |-> 1, chars |-> <<35, 45>>, haslen |-> FALSE, len |-> 0, pre |-> <<>>, suf |-> <<>>, tw |-> 0, dflt |-> FALSE]

Rest(cf) == Cols(cf.pre) + Cols(cf.suf)
RestFits(cf) == cf.kind = "bar" \/ Rest(cf) <= cf.tw
Cells(cf) == NCells(cf.n, cf.c)
Field(cf, line) == SubSeq(line, Len(cf.pre) + 1, Len(line) - Len(cf.suf))
Bar(cf, line) == IF cf.kind = "bar" THEN StripSP(Field(cf, line)) ELSE Field(cf, line)
Good(cf, r, B) == {p \in Layouts(B, Cells(cf), cf.chars) : FilledOK(p[1], Cells(cf), cf.haslen, cf.len, r.pos) /\ p[2] = HeadOf(Cells(cf), cf.haslen, cf.len, r.pos)}
Feasible(cf, r, B, l) == {p[1] : p \in {g \in Good(cf, r, B) : g[1] >= l}}

(* verdict for one pos record; "" = fine *)
Rule(cf, r, l) ==
    IF r.panic # "" THEN "NoPanic"
    ELSE IF r.nstr < 1 THEN "Painted"
    ELSE IF ~RestFits(cf) THEN ""                                    \* the rest of the line does not fit: the statement asks nothing
    ELSE IF ~(/\ Len(r.out) >= Len(cf.pre) + Len(cf.suf) /\ SubSeq(r.out, 1, Len(cf.pre)) = cf.pre
              /\ SubSeq(r.out, Len(r.out) - Len(cf.suf) + 1, Len(r.out)) = cf.suf) THEN "FrameOK"
    ELSE LET B == Bar(cf, r.out) IN
         IF Len(B) # Cells(cf) \/ (\E j \in 1..Len(B) : CW(B[j]) # cf.c) THEN "CellCount"
         ELSE IF cf.kind = "wide" /\ ~(Cols(r.out) <= cf.tw /\ Cols(r.out) > cf.tw - cf.c) THEN "WideWidth"
         ELSE IF Layouts(B, Cells(cf), cf.chars) = {} THEN "LayoutOK"
         ELSE IF {p \in Layouts(B, Cells(cf), cf.chars) : FilledOK(p[1], Cells(cf), cf.haslen, cf.len, r.pos)} = {} THEN "FilledOK"
         ELSE IF Good(cf, r, B) = {} THEN "HeadOK"
         (* "equal to the cell count ... only then": before the end the bar never shows every cell filled (whatever glyph the partial cell is drawn with) *)
         ELSE IF cf.haslen /\ cf.len > 0 /\ r.pos < cf.len /\ Len(B) > 0 /\ (\A j \in 1..Len(B) : B[j] = cf.chars[1]) THEN "FullOnlyWhenDone"
         ELSE IF Feasible(cf, r, B, l) = {} THEN "Monotone"
         ELSE ""
NewLo(cf, r, l) == IF r.panic = "" /\ r.nstr >= 1 /\ RestFits(cf) THEN SetMin(Feasible(cf, r, Bar(cf, r.out), l)) ELSE l

B2(x) == IF x THEN 1 ELSE 0
Count(s, cf, r, f) ==
    LET cells == Cells(cf)
        mid == cf.haslen /\ cf.len > 0 /\ 0 < r.pos /\ r.pos < cf.len /\ cells > 0
        integral == mid /\ (r.pos * cells) % cf.len = 0
    IN [s EXCEPT !.recs = @ + 1, !.bars = @ + 1,
                 !.empty = @ + B2(f = 0 /\ cells > 0), !.full = @ + B2(f = cells /\ cells > 0), !.partial = @ + B2(0 < f /\ f < cells),
                 !.heads = @ + B2(mid), !.integral_q = @ + B2(integral),
                 !.integral_q_minus1 = @ + B2(integral /\ f = (r.pos * cells) \div cf.len - 1),
                 !.tolerance_used = @ + B2(mid /\ ~integral /\ f # (r.pos * cells) \div cf.len),
                 !.two_col = @ + B2(cf.c = 2), !.fine_grained = @ + B2(Len(cf.chars) > 3), !.unknown_len = @ + B2(~cf.haslen), !.big_len = @ + B2(cf.len > 100),
                 !.wide = @ + B2(cf.kind = "wide"), !.wide_fits = @ + B2(cf.kind = "wide" /\ RestFits(cf)),
                 !.wide_exact = @ + B2(cf.kind = "wide" /\ RestFits(cf) /\ Cols(r.out) = cf.tw), !.wide_overfull = @ + B2(cf.kind = "wide" /\ ~RestFits(cf)),
                 !.zero_cells = @ + B2(cells = 0), !.monotone_steps = @ + B2(r.i > 2)]

Init == /\ i = 1 /\ C = C0 /\ lo = 0 /\ dead = TRUE /\ bad = <<>> /\ st = St0
        /\ TLCSet(1, <<>>) /\ TLCSet(2, St0) /\ TLCSet(3, 1)
Next ==
    /\ i <= Len(Rec)
    /\ \E r \in {Rec[i]} :
       IF r.op = "init" THEN /\ C' = C0 /\ lo' = 0 /\ dead' = FALSE /\ bad' = bad /\ st' = [st EXCEPT !.recs = @ + 1, !.hists = @ + 1]
       ELSE IF dead THEN UNCHANGED <<C, lo, dead, bad>> /\ st' = [st EXCEPT !.recs = @ + 1]
       ELSE IF r.op = "new" THEN
            \E rule \in {IF r.panic # "" THEN "NoPanic" ELSE IF r.tplerr # "" THEN "TemplateOK" ELSE ""} :
            /\ C' = [kind |-> r.kind, n |-> r.n, c |-> r.c, chars |-> r.chars, haslen |-> r.haslen, len |-> r.len, pre |-> r.pre, suf |-> r.suf, tw |-> r.tw, dflt |-> r.dflt]
            /\ lo' = 0 /\ dead' = (rule # "")
            /\ bad' = IF rule = "" THEN bad ELSE Append(bad, [h |-> r.h, i |-> r.i, rule |-> rule, op |-> r.op])
            /\ st' = [st EXCEPT !.recs = @ + 1]
       ELSE \E rule \in {Rule(C, r, lo)} :
            /\ C' = C
            /\ dead' = (rule # "")
            /\ bad' = IF rule = "" THEN bad ELSE Append(bad, [h |-> r.h, i |-> r.i, rule |-> rule, op |-> C.kind])
            /\ \E l2 \in {IF rule = "" THEN NewLo(C, r, lo) ELSE lo} :
                 /\ lo' = l2
                 /\ st' = IF rule = "" /\ RestFits(C) THEN Count(st, C, r, l2) ELSE [st EXCEPT !.recs = @ + 1, !.wide_overfull = @ + B2(rule = "" /\ ~RestFits(C))]
    /\ i' = i + 1
    /\ TLCSet(1, bad') /\ TLCSet(2, st') /\ TLCSet(3, i')
Spec == Init /\ [][Next]_vars
Post == PrintT(<<"VERDICTS", ToJson([consumed |-> TLCGet(3) - 1, total |-> Len(Rec), bad |-> TLCGet(1), st |-> TLCGet(2)])>>)
=============================================================================
