import sys, json
def t(c): return ''.join(chr(x) if 32 <= x < 127 else '<%d>' % x for x in c)
for l in sys.stdin:
    if l.startswith('<<"DBG", "'):
        d = json.loads(l.rstrip('\n')[len('<<"DBG", "'):-3].replace('\\"', '"').replace('\\\\', '\\'))
        above = [t(a) if (len(a) != 1 or a[0] > 9) else 'ST%d' % a[0] for a in d['above']]
        bars = ' '.join('%d:%s%s%s%s[%s]' % (i + 1, b['fin'], '/st' if b['st'] else '', '/mv' if b['mv'] else '', '' if b['vis'] else '/hid', '|'.join(t(x) for x in b['pend'])) for i, b in enumerate(d['bars']))
        print(d['i'], d['op'], 'DEAD' if d['dead'] else '', 'order=', d['order'], 'above=', above, bars)
    else:
        print(l[:400])
