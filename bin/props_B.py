"""Property checks C12 (field width / alignment / truncation), C13 (bar geometry), C11 (placeholder values).
Each is TLC generator -> harness driver on the real library -> TLC monitor, wired with props.generic_check."""
import os

import props
import vlib

A4 = {97, 233, 1000, 2000}            # a, e-acute (2 bytes / 1 column), CJK (2 columns), SGR (0 columns)


def _gen_sum(pid, name, model, key):
    """sum of an extra integer field printed with every generated behaviour (design-level counters)"""
    p = os.path.join(vlib.WORK, "%s_%s_gen" % (pid, name), model + ".out")
    try:
        return sum(h.get(key, 0) for h in vlib.histories_from(p))
    except OSError:
        return None


def c12(pid, tier, seed):
    q = tier == "quick"
    al = {"<", "^", ">"}
    gens = [("msg", "MC_Field", dict(MaxLen=5 if q else 6, Alphabet=A4, Ws=set(range(0, 8 if q else 10)), Aligns=al, Wide=False, TWs={1}, Kinds={"msg"}, BarWs=set(), NarrowTWs=set(), Sty="", Wide2=False), "bfs"),
            ("prefix", "MC_Field", dict(MaxLen=3 if q else 4, Alphabet=A4, Ws=set(range(0, 8)), Aligns=al, Wide=False, TWs={1}, Kinds={"prefix"}, BarWs=set(), NarrowTWs=set(), Sty="", Wide2=False), "bfs"),
            ("wide", "MC_Field", dict(MaxLen=4 if q else 5, Alphabet=A4, Ws=set(), Aligns=al, Wide=True, TWs={1, 2, 3, 5, 8} if q else set(range(1, 11)), Kinds={"msg"}, BarWs=set(), NarrowTWs=set(), Sty="", Wide2=False), "bfs"),
            # the text in front of the wide element is another field ({prefix:P}, fitting or overflowing); a bar inside a field of W columns (2-column clusters, odd W)
            ("wide_after_field", "MC_Field", dict(MaxLen=3 if q else 4, Alphabet=A4, Ws=set(), Aligns=al, Wide=False, TWs={3, 5, 6, 8, 12} if q else set(range(1, 15)), Kinds={"msg"},
                                                  BarWs=set(range(0, 12)) if q else set(range(0, 30)), NarrowTWs=set(), Sty="", Wide2=True), "bfs"),
            # a field of W columns on a terminal narrower than W (the line wraps; the field keeps its width and its cut)
            ("narrow_terminal", "MC_Field", dict(MaxLen=3 if q else 4, Alphabet=A4, Ws={0, 2, 5, 8} if q else set(range(0, 10)), Aligns=al, Wide=False, TWs={1}, Kinds={"msg"},
                                                 BarWs=set(), NarrowTWs={3} if q else {1, 3, 6}, Sty="", Wide2=False), "bfs"),
            # a field with a style (colours are off: nothing but the text is painted), empty content included
            ("styled", "MC_Field", dict(MaxLen=2 if q else 3, Alphabet=A4, Ws=set(range(0, 6)), Aligns=al, Wide=False, TWs={1}, Kinds={"msg", "prefix"},
                                        BarWs=set(), NarrowTWs=set(), Sty=".red", Wide2=False), "bfs"),
            ("large", "MC_Field", dict(MaxLen=1 if q else 2, Alphabet=A4, Ws={255, 256, 65535}, Aligns=al | {""}, Wide=False, TWs={1}, Kinds={"msg", "prefix"}, BarWs=set(), NarrowTWs=set(), Sty="", Wide2=False), "bfs")]
    res = props.generic_check(pid, tier, seed, gens, "field", "Trace_Field",
                              "every content of up to MaxLen cells over {a, e-acute, CJK, SGR} x width x alignment x truncation rendered as [{msg:<al><W>[!]}] (and [{prefix:...}]) and as "
                              "pre{wide_msg:<al>}suf on terminal widths TWs with literals of 1- and 2-column glyphs, plus widths 255/256/65535 with short content; "
                              "the painted line is judged by Field!LineOK: exact padding to W columns by alignment, overflow kept unshortened, truncation keeps the columns "
                              "[lo, lo+W) chosen by the alignment (zero-width cells optional, a straddling 2-column cell dropped or blanked), wide_msg = truncating field of the remaining columns",
                              ["column widths of the four glyphs are input facts of the harness tokeniser (tok.rs)",
                               "centre alignment: either side may get the odd blank / the odd column of the cut (the property does not say which)",
                               "wide_msg at the end of a line may omit its trailing blanks",
                               "design level: MC_Field checks that the reference rendering Field!RefField satisfies the contract for every generated case"],
                              shards=6)
    ob = _gen_sum(pid, "msg", "MC_Field", "oldbad")
    res["coverage"]["design_level"] = {"reference_rendering_satisfies_contract": True,
                                       "cases_in_which_the_byte_slicing_model_of_D9_violates_the_contract": ob}
    return res


def c13(pid, tier, seed):
    q = tier == "quick"
    big = {2 ** 24 - 1, 2 ** 24}
    if q:
        consts = dict(Ns={0, 1, 2, 3, 5, 7, 10, 13, 20, 24}, Cs={1, 2}, Ks={2, 3, 4, 7, 10}, Lens={0, 1, 2, 3, 5, 7, 10, 16, 24, 33, 40}, BigLens=big, Unknown=True,
                      Wide=True, TWs={1, 2, 3, 4, 7, 12, 30}, WKs={2, 3, 10}, WLens={0, 1, 3, 7, 40}, Orders={"tc", "ct"})
    else:
        consts = dict(Ns=set(range(0, 25)), Cs={1, 2}, Ks=set(range(2, 11)), Lens=set(range(0, 41)), BigLens=big, Unknown=True,
                      Wide=True, TWs=set(range(1, 31)), WKs={2, 3, 5, 10}, WLens={0, 1, 2, 3, 7, 16, 40}, Orders={"tc", "ct"})
    gens = [("geom", "MC_BarGeometry", consts, "bfs")]
    return props.generic_check(pid, tier, seed, gens, "bargeom", "Trace_BarGeometry",
                               "for every configuration (bar width N / terminal width for wide_bar, cluster width c, 2..10 progress clusters, length incl. unknown, 0, 2^24-1, 2^24) "
                               "every position 0..len+1 in ascending order is set on a real bar and drawn: cells = N div c, layout filled* head? background*, "
                               "filled = cells iff pos >= len, 0 at pos 0 / unknown length, else floor(pos*cells/len) up to single-precision rounding of the quotient, "
                               "head iff 0 < pos < len and it is one of the configured clusters, filled monotone in pos, wide_bar line within c-1 columns of the terminal width and never wider",
                               ["column widths of the progress clusters are input facts of the harness tokeniser (tok.rs); clusters are distinct non-blank glyphs",
                                "single-precision tolerance: a filled count f is accepted iff f <= q' <= f+1 for some q' within cells*2^-21 of the exact quotient q = pos*cells/len; "
                                "for len <= 2^16 this is exactly floor(q), or q-1 at integral q; it never applies at pos = 0 or pos >= len",
                                "len = 0 and pos = 0: both the empty and the full bar are accepted (the statement asks for both)",
                                "a wide_bar whose surrounding text is wider than the terminal is only required not to panic",
                                "for the lengths 2^24-1 and 2^24 the positions are 0,1,2, the four positions around every multiple of len/cells, len-1, len, len+1",
                                "design level: MC_BarGeometry checks that the exact-arithmetic reference bar satisfies the contract at every generated position"],
                               shards=6)


def c11(pid, tier, seed):
    q = tier == "quick"
    lens = {"none", "0", "1", "3", "MAX"}
    poss = {"0", "1", "5", "MAX"}
    vis = {False}
    gens = [("states", "MC_Placeholders", dict(D=1 if q else 2, NT=3, Lens=lens, Poss=poss, Hid=vis), "bfs"),
            ("ticks2", "MC_Placeholders", dict(D=1, NT=2, Lens={"none", "3"}, Poss={"0", "5"}, Hid=vis), "bfs"),
            ("ticks4", "MC_Placeholders", dict(D=1 if q else 2, NT=4, Lens={"none", "3"}, Poss={"1"}, Hid=vis), "bfs"),
            # fractions whose percentage is an exact half (12.5, 62.5, 0.5, 2.5): the documented rendering is {:.0} of the f32 value
            ("half_percent", "MC_Placeholders", dict(D=1, NT=3, Lens={"8", "200"}, Poss={"1", "5"}, Hid=vis), "bfs"),
            # the bar lives behind a hidden target and gets the terminal only before the renders: the state, the ticks and the
            # resets its custom keys saw must be the same
            ("hidden_first", "MC_Placeholders", dict(D=2 if q else 3, NT=3, Lens={"none", "3"}, Poss={"1"}, Hid={True}), "bfs"),
            ("deep", "MC_Placeholders", dict(D=6, NT=3, Lens=lens, Poss=poss, Hid={False, True}), ("sim", 300 if q else 4000, 9))]
    res = props.generic_check(pid, tier, seed, gens, "place", "Trace_Placeholders",
                               "a bar created with length in {unknown, 0, 1, 3, MAX} and position in {0, 1, 5, MAX} is driven by D operations (tick, n-1 / n ticks, inc, set_position, set_length, "
                               "unset_length, set_message, set_prefix, finish, finish_with_message, abandon, reset, clock advances of 1 ms .. 3 days) under the frozen virtual clock; then each of 27 "
                               "documented keys is rendered as [{key}] by force_draw and compared with Placeholders!Term(key) over the formatter values of the public getters logged at the same "
                               "instant; spinner = tick string of the tick count (final string once finished); missing length = position; custom keys see the current state when written and are "
                               "ticked / reset with the bar; get_tick_str / get_final_tick_str at indices 0, 1, n-2, n-1, n, 2^32, MAX",
                               ["the value of each public formatter on each public getter is an input fact logged by the driver at the frozen instant of the draw (C15 checks the formatters, C07/C09 the getters)",
                                "the completed fraction is read from the ProgressState handed to a custom key in the same draw (ProgressBar has no fraction getter)",
                                "tick counts are intervals: every tick() call ticks, any other mutating call may or may not; reset() may or may not restart the spinner; a u64::MAX tick count is not reachable through the API "
                                "and is covered through get_tick_str(u64::MAX) only",
                                "{bar} and {wide_bar} are judged by C13, widths and truncation by C12"],
                               shards=6)
    # schedule clause: a frame painted while another thread increments shows one value of the bar for {pos} and {len}
    import props_sync
    sc = props_sync.c11_schedules(pid, tier, seed)
    cov = res["coverage"]
    cov["states"] += sc["states"]
    cov["transitions"] += sc["transitions"]
    cov["traces_validated_against_impl"] += sc["runs"]
    cov["records_validated"] += sc["records"]
    cov["schedule_clause"] = {"runs": sc["runs"], "clause_counts": sc["stats"], "sample": sc["sample"]}
    res["failures"] += sc["fails"]
    return res


PROPS = {"C12": c12, "C13": c13, "C11": c11}
