"""C15 (human-readable formatters) and C17 (iterator / I/O / async / rayon adaptors)."""
import props
import vlib


def need(res, counters):
    """vacuity: every clause counter of the monitor must have been exercised (unless a verdict cut the histories short)"""
    cc = res["coverage"]["clause_counts"]
    missing = [c for c in counters if cc.get(c, 0) == 0]
    if missing and not res["failures"]:
        raise vlib.ToolError("vacuous run: clause counters never exercised: %s" % missing)


def c15(pid, tier, seed):
    q = tier == "quick"
    es_q = [-320, -30, -8, -5, -3, -2, -1, 0, 1, 2, 3, 4, 5, 6, 7, 8, 9, 10, 15, 18, 19, 20, 21, 300]
    es_t = sorted(set(list(range(-330, -300, 5)) + list(range(-30, 26)) + [50, 100, 200, 290, 300, 305, 308]))
    base = dict(Fam="u64", Ps={0}, Es={400}, NMax=60, RndCount=1, Salts={1})
    gens = [("u64_edges", "MC_Formats", dict(base, Fam="u64"), "bfs"),
            ("dur_boundaries", "MC_Formats", dict(base, Fam="dur", NMax=60 if q else 200), "bfs"),
            ("float_literals", "MC_Formats", dict(base, Fam="float", Ps={99, 0, 1, 2, 4, 25} if q else set(range(0, 26)) | {99},
                                                  Es={400 + e for e in (es_q if q else es_t)}), "bfs"),
            ("random", "MC_Formats", dict(base, Fam="rnd", RndCount=150 if q else 1500, Salts=set(range(1, 9 if q else 33))), "bfs")]
    res = props.generic_check(
        pid, tier, seed, gens, "formats", "Trace_Formats",
        "inputs = TLC-enumerated boundary sets (every digit length 1..20 with leading 1 / 9 / all nines, every 1000^k and 1024^k +- 1, two-decimal rounding ties +- 1, "
        "2^53 and 2^64 edges; per HumanDuration unit the switch point 1.5 units - half the next unit and every (n + 1/2) units up to NMax, each at -1 ms / exactly / +1 ms, "
        "plain and alternate; decimal literals sign x mantissa x 10^e x precision and NaN / infinities / zeros / subnormal / MAX) plus seeded pseudo-random u64 / f64 bit patterns / "
        "Durations up to Duration::MAX; every (input, output, panic) record is judged by Trace_Formats against Formats.tla on exact limb arithmetic: NoPanic, HumanCountOK, "
        "HumanFloatOK, FormattedDurationOK, BytesOK, HumanDurationOK, DurationMonotone",
        ["HumanFloatCount: Rust's own `{:.p}` rendering of the value is an input fact logged by the driver (TLC cannot print floats); the grouping / sign / trimming law is evaluated by TLC",
         "f64 slack: byte values >= 2^45 and durations >= 2^45 ns are accepted within a relative 2^-45 of the exact law (ties either way); below that the law is exact",
         "`{:#}` (alternate) HumanDuration is held to the same unit and count law as the plain form",
         "the random part is exploration: inputs are derived from VERIF_SEED, the salt in the behaviour and the kind only"],
        harness_extra=[str(seed)], shards=6)
    need(res, ("counts", "floats", "negs", "nonfinite", "prec0", "grouped", "bytes", "slack", "fdur", "days", "hdur", "mono", "switches", "forced2"))
    cov = res["coverage"]
    cov["exhaustive"] = False       # the boundary families are enumerated exhaustively by TLC; the `random` family is seeded exploration
    cov["exploration"] = {"family": "random", "records": sum(f["records"] for f in cov["families"] if f["family"] == "random"), "seed": seed}
    return res


def kf_c17(h, v):
    """narrow predicates for the defects of DESIGN.md section 5 (only effective for ids listed in known_findings.json)"""
    out = []
    rec = v.get("rec", {})
    new = (h.get("ops") or [{}])[0]
    if v["rule"] == "PosOK" and v.get("op") in ("poll_fill_buf", "aconsume") and h.get("fam") == "aio":
        out.append("KF-D13a")
    if h.get("fam") == "par" and v["rule"] in ("NotFinishedEarly", "PosOK"):
        if (v.get("op") in ("end", "item", "done", "split") and str(new.get("path", "")).startswith("producer")) or (v.get("op") == "pool" and rec.get("adaptor") in ("rev", "zip")):
            out.append("KF-D13b")
    if v["rule"] == "SeekOK" and v.get("op") == "poll_complete":
        out.append("KF-D13c")
    return out


def c17(pid, tier, seed):
    q = tier == "quick"
    allkinds = {"read", "write", "read_vectored", "write_vectored", "poll_read", "poll_write", "poll_write_vectored"}
    allpaths = {"consumer", "unindexed", "producer", "producer_rev"}
    base = dict(Fam="io", D=2, Kinds={"read"}, N=3, Mode="leaf", Paths={"consumer"}, Rich=False, Caps={0})
    gens = [("scripts", "MC_Adaptors", dict(base, Fam="script", D=4 if q else 6, Kinds=allkinds), "bfs"),
            ("io_pairs", "MC_Adaptors", dict(base, Fam="io", D=2, Rich=not q), "bfs"),
            ("io_deep", "MC_Adaptors", dict(base, Fam="io", D=12, Rich=True), ("sim", 300 if q else 4000, 16)),
            ("bufread", "MC_Adaptors", dict(base, Fam="buf", D=4 if q else 6), "bfs"),
            ("tokio", "MC_Adaptors", dict(base, Fam="aio", D=2 if q else 3), "bfs"),
            ("tokio_deep", "MC_Adaptors", dict(base, Fam="aio", D=12, Rich=True), ("sim", 300 if q else 4000, 16)),
            ("iterator", "MC_Adaptors", dict(base, Fam="iter", D=3 if q else 4, Rich=not q), "bfs"),
            ("stream", "MC_Adaptors", dict(base, Fam="stream", D=4 if q else 6, Rich=not q), "bfs"),
            ("rayon_leaf_orders", "MC_Adaptors", dict(base, Fam="par", N=4, Mode="leaf", Paths=allpaths, Rich=True), "bfs"),
            ("rayon_interleaved", "MC_Adaptors", dict(base, Fam="par", N=3 if q else 4, Mode="fine", Paths=allpaths), "bfs"),
            # Folder::consume_iter, also into base folders that report full() after one or two items (short-circuiting consumers): the bar
            # advances by what the base folder took
            ("rayon_full_folders", "MC_Adaptors", dict(base, Fam="par", N=4 if q else 5, Mode="leaf", Paths={"consumer", "unindexed"}, Caps={0, 1, 2}), "bfs")]
    if not q:
        gens.insert(2, ("io_triples", "MC_Adaptors", dict(base, Fam="io", D=3), "bfs"))
        gens.append(("rayon_leaf_orders_6", "MC_Adaptors", dict(base, Fam="par", N=6, Mode="leaf", Paths={"producer", "consumer"}), "bfs"))
    gens.append(("rayon_free_6", "MC_Adaptors", dict(base, Fam="par", N=6, Mode="free", Paths=allpaths, Rich=True), ("sim", 200 if q else 20000, 40)))
    res = props.generic_check(
        pid, tier, seed, gens, "adaptors", "Trace_Adaptors",
        "behaviours of MC_Adaptors: every response script of length D over {Ok(0), Ok(k<n), Ok(n), Err, Interrupted|Pending} per call kind; pairs and random walks over read / "
        "read_vectored / read_exact / read_to_end / read_to_string / write / write_vectored / write_all / flush / seek (Start, Current, End, huge, before-start, failing) / rewind / "
        "stream_position; BufRead fill_buf / consume interleavings; tokio poll_read / poll_write / poll_write_vectored / poll_flush / poll_shutdown / poll_fill_buf / consume / "
        "start_seek / poll_complete with Pending; Iterator / DoubleEndedIterator / ExactSizeIterator / futures Stream over every finish behaviour with known and unknown length, "
        "refilled (non-fused) sources and caller-moved bars; rayon: every binary split tree with every leaf order and every interleaving of single next() calls on the consumer, "
        "unindexed-consumer, producer and reversed-producer paths, plus one real thread-pool run per behaviour. Each record is judged by Trace_Adaptors: NoPanic, Transparent "
        "(result and data equal the unwrapped twin's), PosOK / SeekOK (position = fold of the source's calls), FinishOK (finish behaviour exactly once), HintOK, NotFinishedEarly",
        ["the wrapped objects are scripted sources / sinks; `the unwrapped object` is an identical twin receiving the same script",
         "read_exact / read_to_string failing after a partial transfer: any position from pos to pos + bytes moved is accepted; stream_position may or may not re-sync the bar",
         "a futures Stream is not polled again after it returned None; async objects are polled with a no-op waker (no runtime)",
         "the rayon split tree and consumption order are driven through rayon::iter::plumbing on one thread; the real-pool run (3 threads, max_len 1) only checks the final position, "
         "the items and a sound early-finish flag (is_finished() seen while some item had not been started)",
         "bars are hidden (no draw target); rendering of adaptor-driven bars is C04's business"],
        kf_fn=kf_c17, shards=6)
    need(res, ("short", "errs", "pendings", "multi", "seeks", "consumes", "items", "finishes", "refinish", "lenient", "hints", "splits", "paritems", "leafends", "pools"))
    return res


PROPS = {"C15": c15, "C17": c17}
