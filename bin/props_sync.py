"""C08: no deadlock, steady-tick thread life-cycle. Sync.tla (TLC) -> schedules -> controlled scheduler on the real code -> Trace_Sync."""
import concurrent.futures as cf
import json
import os
import re

import vlib

QUICK = [
    # (name, multi, init ticker, callers)
    ("d5_pattern", False, True, [["tick"], ["update"], ["disable"]]),
    ("update_vs_enable", False, True, [["update"], ["enable"]]),
    ("finish_vs_disable", False, True, [["finish"], ["disable"]]),
    ("tickfinish_vs_update", False, True, [["tick", "finish"], ["update"]]),
    ("multi_println_update_enable", True, True, [["println"], ["update"], ["enable"]]),
    ("multi_finish_mpprintln", True, True, [["finish"], ["mp_println"]]),
    ("enable_vs_disable", False, False, [["enable"], ["disable"]]),
    ("enable_vs_enable", False, False, [["enable"], ["enable"]]),
    ("multi_tick_tick", True, False, [["tick"], ["tick"]]),
    ("updatedisable_vs_finish", False, True, [["update", "disable"], ["finish"]]),
    ("disable_vs_disable", False, True, [["disable"], ["disable"]]),
    ("manual_ticks", False, True, [["tick", "tick", "tick"], []]),
    # manual ticks from two threads at once while a ticker is installed: none of them may advance the spinner
    ("manual_two_threads", False, True, [["tick", "tick"], ["tick"]]),
    # a ticker for a bar that is finished already (the thread exits at once; nobody may wait for a frame of it)
    ("finish_then_enable", False, False, [["finish", "enable", "tick"], ["tick"]]),
    ("finish_vs_enable", False, True, [["finish"], ["enable"]]),
    # a bar born hidden: steady tick enabled first, the terminal given afterwards; the ticker is there, so the manual ticks stay without effect
    ("manual_hidden_enable_show", False, False, [["enable", "show", "tick", "tick"], ["tick"]]),
    # suspend (the closure runs under the locks), set_message and inc against the other calls
    ("suspend_vs_tick_ticker", False, True, [["suspend"], ["tick"]]),
    ("multi_suspend_vs_finish", True, False, [["suspend"], ["finish"]]),
    ("multi_setmsg_inc_println", True, True, [["set_message"], ["inc"], ["println"]]),
    ("multi_tick_vs_remove", True, False, [["tick"], ["mp_remove"]]),
    ("multi_remove_vs_finish_ticker", True, True, [["finish"], ["mp_remove"]]),
    ("multi_remove_println_mpprintln", True, False, [["mp_remove"], ["println"], ["mp_println"]]),
    ("fast_ticker_vs_update", False, False, [["enable_fast", "update"], ["tick", "finish"]]),
    ("multi_insert_after_vs_tick", True, False, [["mp_insert_after"], ["tick"]]),
    ("multi_insert_after_vs_finish_ticker", True, True, [["finish"], ["mp_insert_after"]]),
]
CALLS = ["tick", "update", "finish", "println", "disable", "enable", "inc", "set_message", "suspend"]


def programs(tier):
    if tier == "quick":
        return QUICK
    out = list(QUICK)
    for multi in (False, True):
        for tk in (False, True):
            for a in CALLS + (["mp_println", "mp_remove", "mp_insert_after"] if multi else []):
                for b in CALLS + (["mp_println", "mp_remove", "mp_insert_after"] if multi else []):
                    # insert_after needs its anchor to be a member (it panics otherwise, by contract): not together with remove of the anchor
                    if {a, b} == {"mp_remove", "mp_insert_after"}:
                        continue
                    out.append(("p2_%s_%s_%d%d" % (a, b, multi, tk), multi, tk, [[a], [b]]))
    for a in CALLS[:6]:
        for b in CALLS[:6]:
            for c in ("disable", "enable", "finish"):
                out.append(("p3_%s_%s_%s" % (a, b, c), False, True, [[a], [b], [c]]))
    return out


def tla_seq(x):
    if isinstance(x, list):
        return "<<" + ", ".join(tla_seq(y) for y in x) + ">>"
    return '"%s"' % x


def one_program(pid, tier, name, multi, tk, callers, order="KS"):
    wd = vlib.workdir("%s_%s" % (pid, name))
    mod = "MC_Sync_%s" % re.sub(r"[^A-Za-z0-9_]", "_", name)
    with open(os.path.join(wd, mod + ".tla"), "w") as f:
        f.write("---- MODULE %s ----\nEXTENDS Sync\nProgramsDef == %s\n====\n" % (mod, tla_seq(callers)))
    nen = sum(c.count("enable") + c.count("enable_fast") for c in callers) + (1 if tk else 0)
    cfg = ("SPECIFICATION Spec\nCONSTANTS\n Programs <- ProgramsDef\n Multi = %s\n InitTicker = %s\n UpdateOrder = \"%s\"\n MaxTickers = %d\n"
           "VIEW View\nINVARIANT NoDeadlock\nINVARIANT NoTimeoutDependence\nINVARIANT SlotOK\nINVARIANT LocksOK\nINVARIANT CleanEnd\nCHECK_DEADLOCK FALSE\n"
           % ("TRUE" if multi else "FALSE", "TRUE" if tk else "FALSE", order, max(1, nen)))
    out, dist, gen = vlib.run_tlc(os.path.join(wd, mod + ".tla"), cfg, wd, workers=2, timeout=600, xmx="2g", allow_violation=True)
    txt = open(out, errors="replace").read()
    lead = None
    m = re.search(r"Invariant (\w+) is violated", txt)
    if m:
        hs = re.findall(r"/\\ hist = (<<[^>]*>>)", txt)
        lead = {"invariant": m.group(1), "schedule": [int(x) for x in re.findall(r"\d+", hs[-1])] if hs else []}
    scheds = [h["schedule"] for h in vlib.histories_from(out)]
    return dict(name=name, multi=multi, tk=tk, callers=callers, dist=dist, gen=gen, scheds=scheds, lead=lead)


def conformance(pid, models, runs):
    """Trace validation: the events every run logged are checked, per program, against Sync.tla (Trace_SyncConf.tla)."""
    import glob
    import subprocess
    prog_of = {r["h"]: r["program"] for r in runs}
    by_prog = {}
    for f in sorted(glob.glob(os.path.join(vlib.WORK, "%s_runs" % pid, "s*", "trace.ndjson"))):
        for l in open(f):
            if not l.strip():
                continue
            h = int(re.search(r'"h":\s*(\d+)', l).group(1))
            by_prog.setdefault(prog_of.get(h, "?"), []).append(l)
    mby = {m["name"]: m for m in models}

    def one(name):
        m = mby[name]
        wd = vlib.workdir("%s_conf_%s" % (pid, re.sub(r"[^A-Za-z0-9_]", "_", name)))
        mod = "MC_SyncConf_%s" % re.sub(r"[^A-Za-z0-9_]", "_", name)
        with open(os.path.join(wd, mod + ".tla"), "w") as f:
            f.write("---- MODULE %s ----\nEXTENDS Trace_SyncConf\nProgramsDef == %s\n====\n" % (mod, tla_seq(m["callers"])))
        nen = sum(c.count("enable") + c.count("enable_fast") for c in m["callers"]) + (1 if m["tk"] else 0)
        with open(os.path.join(wd, mod + ".cfg"), "w") as f:
            f.write("SPECIFICATION ConfSpec\nCONSTANTS\n Programs <- ProgramsDef\n Multi = %s\n InitTicker = %s\n UpdateOrder = \"KS\"\n MaxTickers = %d\n"
                    "POSTCONDITION ConfPost\nCHECK_DEADLOCK FALSE\n" % ("TRUE" if m["multi"] else "FALSE", "TRUE" if m["tk"] else "FALSE", max(1, nen)))
        tr = os.path.join(wd, "trace.ndjson")
        with open(tr, "w") as f:
            f.writelines(by_prog[name])
        out = os.path.join(wd, "conf.out")
        env = dict(os.environ, TRACE=tr, JAVA_TOOL_OPTIONS="-Xss1g -Dtlc2.tool.queue.IStateQueue=StateDeque")
        cmd = ["java", "-XX:+UseParallelGC", "-Xmx2g", "-DTLA-Library=" + vlib.SPEC, "-cp", vlib.JARS, "tlc2.TLC", "-workers", "1", "-metadir", os.path.join(wd, "meta"),
               "-noGenerateSpecTE", "-config", os.path.join(wd, mod + ".cfg"), os.path.join(wd, mod + ".tla")]
        with open(out, "w") as f:
            try:
                subprocess.run(cmd, stdout=f, stderr=subprocess.STDOUT, timeout=900, env=env, cwd=wd, preexec_fn=vlib._die_with_parent)
            except subprocess.TimeoutExpired:
                raise vlib.ToolError("conformance monitor timed out on %s" % name)
        vs = list(vlib.extract(out, "CONFORMANCE"))
        if not vs:
            raise vlib.ToolError("conformance monitor produced nothing for %s; see %s\n%s" % (name, out, vlib.tail_errors(open(out, errors="replace").read())))
        v = json.loads(vs[-1])
        v["program"] = name
        return v

    names = [n for n in by_prog if n in mby]
    with cf.ThreadPoolExecutor(max_workers=8) as ex:
        res = list(ex.map(one, names))
    tot = dict(runs=sum(r["runs"] for r in res), conform=sum(r["conform"] for r in res), events=sum(r["events"] for r in res))
    tot["not_conforming"] = [dict(program=r["program"], runs=r["runs"], conform=r["conform"], first=r["first"][:2]) for r in res if r["conform"] != r["runs"]][:10]
    vlib.log("conformance %s: %d of %d runs (%d events) are behaviours of Sync.tla" % (pid, tot["conform"], tot["runs"], tot["events"]))
    return tot


def prog_json(p, sched):
    return {"setup": {"multi": p["multi"], "bars": 1, "ticker": [1] if p["tk"] else [], "hidden": "hidden" in p["name"]},
            "threads": [[{"op": c, "b": 1} for c in caller] for caller in p["callers"]],
            "schedule": sched, "spincheck": p["name"].startswith("manual_"), "program": p["name"]}


def c08(pid, tier, seed):
    q = tier == "quick"
    progs = programs(tier)
    with cf.ThreadPoolExecutor(max_workers=6) as ex:
        models = list(ex.map(lambda a: one_program(pid, tier, *a), progs))
    states = sum(m["dist"] for m in models)
    trans = sum(m["gen"] for m in models)
    runs, leads = [], []
    cap = 250 if q else 4000
    for m in models:
        sc = m["scheds"]
        if len(sc) > cap:                      # deterministic sample: longest schedules first (deepest interleavings), then evenly spaced
            sc = sorted(sc, key=len, reverse=True)
            sc = sc[:cap // 2] + sc[cap // 2::max(1, (len(sc) - cap // 2) // (cap // 2))][:cap // 2]
        for s in sc:
            runs.append(prog_json(m, s))
        if m["lead"]:
            leads.append((m, m["lead"]))
            runs.append(dict(prog_json(m, m["lead"]["schedule"]), lead=m["lead"]["invariant"]))
    bad, st, total = vlib.replay_and_judge("%s_runs" % pid, runs, "sync", "Trace_Sync", shards=8, keep_traces=True)
    byh = {r["h"]: r for r in runs}
    # the same schedules once more for the programs with a MultiProgress, with the read-write lock in its write-preferring form (what the futex
    # implementation of std::sync::RwLock does: no reader gets in while a writer waits, not even one that holds a read guard already)
    runs_w = [dict(r, wpref=True) for r in runs if r["setup"].get("multi")]
    for r in runs_w:
        r.pop("h", None)
    bad_w, st_w, total_w = vlib.replay_and_judge("%s_runs_wpref" % pid, runs_w, "sync", "Trace_Sync", shards=8) if runs_w else ([], {}, 0)
    byh_w = {r["h"]: r for r in runs_w}
    fails = []
    for v in bad_w:
        r = byh_w[v["h"]]
        fails.append(dict(cls="%s/%s/wpref" % (v["rule"], r["program"]), rule=v["rule"], n=len(r["schedule"]), kf=[],
                          what="rule=%s program=%s result=%s (write-preferring RwLock)" % (v["rule"], r["program"], v.get("op")),
                          replay={"driver": "sync", "monitor": "Trace_Sync", "rule": v["rule"], "history": r}))
    for v in bad:
        r = byh[v["h"]]
        fails.append(dict(cls="%s/%s" % (v["rule"], r["program"]), rule=v["rule"], n=len(r["schedule"]), kf=[],
                          what="rule=%s program=%s result=%s" % (v["rule"], r["program"], v.get("op")),
                          replay={"driver": "sync", "monitor": "Trace_Sync", "rule": v["rule"], "history": r}))
    lead_notes = []
    failed_h = {v["h"] for v in bad}
    for m, lead in leads:
        hit = [r for r in runs if r.get("lead") and r["program"] == m["name"] and r["h"] in failed_h]
        lead_notes.append({"program": m["name"], "model_invariant": lead["invariant"], "reproduced_on_code": bool(hit)})
    if (st.get("runs", 0) == 0 or st.get("joins", 0) == 0 or st.get("ticks", 0) == 0) and not fails:
        raise vlib.ToolError("vacuous run: %s" % st)
    conf = conformance(pid, models, runs)
    fails.sort(key=lambda x: x["n"])
    coverage = dict(states=states, transitions=trans, traces_validated_against_impl=len(runs), records_validated=total,
                    samples=[{"program": runs[0]["program"], "threads": runs[0]["threads"], "schedule": runs[0]["schedule"]}],
                    clause_counts=st, programs=len(models), program_list=[{"name": m["name"], "callers": m["callers"], "multi": m["multi"], "ticker": m["tk"], "model_states": m["dist"],
                                                 "schedules": len(m["scheds"])} for m in models][:60],
                    model_leads=lead_notes, trace_conformance=conf, write_preferring_runs={"runs": len(runs_w), "records": total_w, "verdicts": len(bad_w)},
                    rule="per program TLC explores all interleavings of Sync.tla at lock/notify/spawn/join/wait granularity and checks NoDeadlock, NoTimeoutDependence, SlotOK, CleanEnd; the shortest "
                         "schedule to every reachable model state is replayed on the real code under the controlled scheduler (hooks) and judged by Trace_Sync", exhaustive=False)
    return dict(level="model_checking", coverage=coverage, failures=fails,
                assumptions=["interleavings at the granularity of the instrumented primitives (Mutex, RwLock, Condvar, spawn, join); Rust's type system covers data races below that",
                             "user callbacks do not re-enter the library", "tick interval 1 h: a time-out fires only when the scheduler says so"])


def c07_schedules(pid, tier, seed):
    """C07, schedule clause: concurrent inc/dec from several threads and clones are never lost. Every sequence of L thread choices
    (TLC, Choices.tla) is replayed on the real code with the scheduler interleaving at atomic load/store/rmw granularity."""
    q = tier == "quick"
    progs = [("inc_dec", [["inc"], ["dec"]]), ("dec_dec", [["dec"], ["dec"]]), ("inc_inc_dec", [["inc", "inc"], ["dec"]]),
             # calls that do not change the position, concurrent with ones that do
             ("inc_vs_reset_elapsed", [["inc", "inc"], ["reset_elapsed"]]), ("dec_vs_reset_eta_length", [["dec", "inc"], ["reset_eta", "set_length"]])]
    if not q:
        progs += [("three", [["inc"], ["dec"], ["dec", "inc"]]), ("inc_vs_finish_free", [["inc", "dec"], ["inc_length", "reset_elapsed", "tick"]])]
    runs = []
    states = trans = 0
    for name, callers in progs:
        wd = vlib.workdir("%s_choices_%s" % (pid, name))
        out, dist, gen = vlib.run_tlc("Choices", vlib.cfg_text(dict(N=len(callers), L=8 if q else (10 if len(callers) == 2 else 8)), invariants=["TypeOK"]), wd, workers=2)
        states += dist
        trans += gen
        for h in vlib.histories_from(out):
            runs.append({"setup": {"multi": False, "bars": 1, "ticker": [], "hidden": True, "pos0": 5}, "atomics": True, "keep": True,
                         "threads": [[{"op": c, "b": 1} for c in caller] for caller in callers], "schedule": h["schedule"], "spincheck": False, "program": name})
    bad, st, total = vlib.replay_and_judge("%s_sched" % pid, runs, "sync", "Trace_Sync", shards=8)
    byh = {r["h"]: r for r in runs}
    fails = [dict(cls="%s/%s" % (v["rule"], byh[v["h"]]["program"]), rule=v["rule"], n=len(byh[v["h"]]["schedule"]), kf=[],
                  what="rule=%s program=%s" % (v["rule"], byh[v["h"]]["program"]),
                  replay={"driver": "sync", "monitor": "Trace_Sync", "rule": v["rule"], "history": byh[v["h"]]}) for v in bad]
    if st.get("sums", 0) == 0:
        raise vlib.ToolError("vacuous run: no final sum checked")
    return dict(states=states, transitions=trans, runs=len(runs), records=total, stats=st, fails=fails,
                sample={"program": runs[0]["program"], "threads": runs[0]["threads"], "schedule": runs[0]["schedule"]})


def c02_schedules(pid, tier, seed):
    """C02, schedule clause: bars of one MultiProgress updated from several threads. Every sequence of L thread choices (Choices.tla) at
    lock granularity under the controlled scheduler; every painted frame is parsed back to (bar, position) pairs and judged by Trace_Sync!FramesOK."""
    q = tier == "quick"
    progs = [("two_bars", 2, [[("inc", 1), ("inc", 1), ("finish", 1)], [("inc", 2), ("inc", 2), ("finish", 2)]]),
             ("shared_bar", 2, [[("inc", 1), ("inc", 2), ("finish", 1)], [("inc", 1), ("finish", 2)]])]
    if not q:
        progs.append(("three_threads", 2, [[("inc", 1), ("finish", 1)], [("inc", 2), ("inc", 1)], [("inc", 2), ("finish", 2)]]))
    runs = []
    states = trans = 0
    for name, nbars, callers in progs:
        wd = vlib.workdir("%s_choices_%s" % (pid, name))
        out, dist, gen = vlib.run_tlc("Choices", vlib.cfg_text(dict(N=len(callers), L=9 if q else (12 if len(callers) == 2 else 9)), invariants=["TypeOK"]), wd, workers=2)
        states += dist
        trans += gen
        for h in vlib.histories_from(out):
            runs.append({"setup": {"multi": True, "bars": nbars, "ticker": [], "named": True}, "framecheck": True, "keep": True,
                         "threads": [[{"op": o, "b": b} for (o, b) in caller] for caller in callers], "schedule": h["schedule"], "spincheck": False, "program": name})
    bad, st, total = vlib.replay_and_judge("%s_sched" % pid, runs, "sync", "Trace_Sync", shards=8)
    byh = {r["h"]: r for r in runs}
    fails = [dict(cls="%s/%s" % (v["rule"], byh[v["h"]]["program"]), rule=v["rule"], n=len(byh[v["h"]]["schedule"]), kf=[],
                  what="rule=%s program=%s" % (v["rule"], byh[v["h"]]["program"]),
                  replay={"driver": "sync", "monitor": "Trace_Sync", "rule": v["rule"], "history": byh[v["h"]]}) for v in bad]
    if st.get("frames", 0) == 0:
        raise vlib.ToolError("vacuous run: no frame was judged")
    return dict(states=states, transitions=trans, runs=len(runs), records=total, stats=st, fails=fails,
                sample={"program": runs[0]["program"], "threads": runs[0]["threads"], "schedule": runs[0]["schedule"]})


def c11_schedules(pid, tier, seed):
    """C11, schedule clause: a bar without length renders {len} as the position; while one thread draws, another increments (the position is an
    atomic outside the bar's lock). Every sequence of L thread choices (Choices.tla) at atomic granularity; every painted frame must show the
    same number for {pos} and {len} (Trace_Sync!FrameConsistent)."""
    q = tier == "quick"
    progs = [("draw_vs_inc", [["tick", "tick"], ["inc", "inc"]]), ("draw_msg_vs_inc", [["tick", "set_message"], ["inc", "inc"]])]
    runs = []
    states = trans = 0
    for name, callers in progs:
        wd = vlib.workdir("%s_choices_%s" % (pid, name))
        out, dist, gen = vlib.run_tlc("Choices", vlib.cfg_text(dict(N=len(callers), L=9 if q else 12), invariants=["TypeOK"]), wd, workers=2)
        states += dist
        trans += gen
        for h in vlib.histories_from(out):
            runs.append({"setup": {"multi": False, "bars": 1, "ticker": [], "named": True, "nolen": True}, "atomics": True, "keep": True, "paircheck": True,
                         "threads": [[{"op": c, "b": 1} for c in caller] for caller in callers], "schedule": h["schedule"], "spincheck": False, "program": name})
    bad, st, total = vlib.replay_and_judge("%s_sched" % pid, runs, "sync", "Trace_Sync", shards=8)
    byh = {r["h"]: r for r in runs}
    fails = [dict(cls="%s/%s" % (v["rule"], byh[v["h"]]["program"]), rule=v["rule"], n=len(byh[v["h"]]["schedule"]), kf=[],
                  what="rule=%s program=%s" % (v["rule"], byh[v["h"]]["program"]),
                  replay={"driver": "sync", "monitor": "Trace_Sync", "rule": v["rule"], "history": byh[v["h"]]}) for v in bad]
    if st.get("pairs", 0) == 0 and not bad:
        raise vlib.ToolError("vacuous run: no frame with a {pos}|{len} pair was judged")
    return dict(states=states, transitions=trans, runs=len(runs), records=total, stats=st, fails=fails,
                sample={"program": runs[0]["program"], "threads": runs[0]["threads"], "schedule": runs[0]["schedule"]})


def final_state_clause(pid, tier, seed, families):
    """Schedule clause of C01 / C02 / C03 / C16 (Linear.tla): small concurrent programs generated by TLC (MC_Linear) with preemption-bounded
    schedules, run on the real code under the controlled scheduler; Trace_Linear requires the final terminal and getters to be those of
    some sequential order of the same calls."""
    q = tier == "quick"
    runs = []
    states = trans = 0
    for famname, K, two1 in families:
        wd = vlib.workdir("%s_linear_%s" % (pid, famname))
        out, dist, gen = vlib.run_tlc("MC_Linear", vlib.cfg_text(dict(Family=famname, K=K, Two1=two1), invariants=["TypeOK"]), wd, workers=2)
        states += dist
        trans += gen
        for h in vlib.histories_from(out):
            h["program"] = "%s:%s" % (famname, "|".join(",".join(o["op"] for o in t) for t in h["threads"]))
            runs.append(h)
    if not runs:
        raise vlib.ToolError("MC_Linear generated no program")
    bad, st, total = vlib.replay_and_judge("%s_linear" % pid, runs, "sync", "Trace_Linear", shards=12)
    byh = {r["h"]: r for r in runs}
    fails = [dict(cls="%s/%s" % (v["rule"], byh[v["h"]]["program"]), rule=v["rule"], n=len(byh[v["h"]]["schedule"]), kf=[],
                  what="rule=%s program=%s (concurrent calls, final state)" % (v["rule"], byh[v["h"]]["program"]),
                  replay={"driver": "sync", "monitor": "Trace_Linear", "rule": v["rule"], "expected_lines": ["".join(chr(c) if 32 <= c < 127 else "<%d>" % c for c in l) for l in v.get("exp", [])],
                          "history": byh[v["h"]]}) for v in bad]
    if (st.get("runs", 0) == 0 or st.get("switched", 0) == 0 or st.get("paints", 0) == 0) and not bad:
        raise vlib.ToolError("vacuous run of the final-state clause: %s" % st)
    return dict(states=states, transitions=trans, runs=len(runs), records=total, stats=st, fails=fails,
                sample={"program": runs[len(runs) // 2]["program"], "threads": runs[len(runs) // 2]["threads"], "schedule": runs[len(runs) // 2]["schedule"]})


PROPS = {"C08": c08}
