#!/usr/bin/env python3
"""Shared machinery of /verif/bin/check: build the harness against /repo's working tree,
let TLC generate behaviours from a specification, replay them on the real library, let TLC
monitors judge the recorded traces, classify verdicts against known_findings.json, write
evidence and replay files."""
import concurrent.futures as cf
import fcntl
import hashlib
import json
import os
import re
import shutil
import subprocess
import sys
import time

ROOT = os.path.dirname(os.path.dirname(os.path.abspath(__file__)))
SPEC = os.path.join(ROOT, "spec")
HARNESS_DIR = os.path.join(ROOT, "harness")
HARNESS = os.path.join(HARNESS_DIR, "target", "debug", "harness")
WORK = os.path.join(ROOT, "work")
JARS = "/opt/veriftools/tla/tla2tools.jar:/opt/veriftools/tla/CommunityModules-deps.jar"
NCPU = os.cpu_count() or 4


class ToolError(Exception):
    pass


def log(*a):
    print(*a, file=sys.stderr, flush=True)


def workdir(name):
    d = os.path.join(WORK, name)
    shutil.rmtree(d, ignore_errors=True)
    os.makedirs(d, exist_ok=True)
    return d


def build():
    """cargo build of the harness (path dependency on /repo, hooks enabled through rustflags).
    Serialised with a file lock so that concurrent checks share one target directory."""
    os.makedirs(WORK, exist_ok=True)
    lock = open(os.path.join(WORK, ".build.lock"), "w")
    fcntl.flock(lock, fcntl.LOCK_EX)
    try:
        lockfile = os.path.join(HARNESS_DIR, "Cargo.lock")
        if not os.path.exists(lockfile):
            shutil.copy("/repo/Cargo.lock", lockfile)
        env = dict(os.environ, CARGO_NET_OFFLINE="true")
        env.pop("CARGO_TARGET_DIR", None)      # the harness always builds into harness/target (see .cargo/config.toml)
        env.pop("RUSTFLAGS", None)
        t0 = time.time()
        p = subprocess.run(["cargo", "build", "--offline", "--quiet"], cwd=HARNESS_DIR, env=env,
                           stdout=subprocess.PIPE, stderr=subprocess.STDOUT, text=True)
        if p.returncode != 0:
            raise ToolError("cargo build failed:\n" + p.stdout[-4000:])
        log("build %.1fs" % (time.time() - t0))
    finally:
        fcntl.flock(lock, fcntl.LOCK_UN)
        lock.close()


def cfg_text(constants, invariants=(), spec="Spec", view=None, extra=()):
    def val(v):
        if isinstance(v, bool):
            return "TRUE" if v else "FALSE"
        if isinstance(v, int):
            return str(v)
        if isinstance(v, str):
            return '"%s"' % v
        if isinstance(v, (set, frozenset, list, tuple)):
            return "{" + ", ".join(val(x) for x in sorted(v, key=lambda x: (str(type(x)), x))) + "}"
        raise ValueError(v)
    lines = ["SPECIFICATION " + spec, "CONSTANTS"]
    for k, v in constants.items():
        lines.append(" %s = %s" % (k, val(v)))
    if view:
        lines.append("VIEW " + view)
    for inv in invariants:
        lines.append("INVARIANT " + inv)
    lines.extend(extra)
    lines.append("CHECK_DEADLOCK FALSE")
    return "\n".join(lines) + "\n"


def extract(path, tag):
    pre = '<<"%s", "' % tag
    with open(path, errors="replace") as f:
        for l in f:
            if l.startswith(pre):
                yield l.rstrip("\n")[len(pre):-3].replace('\\"', '"').replace("\\\\", "\\")


def _die_with_parent():
    """children (TLC, harness) are killed when this process dies, also when it is killed outright (out of memory)"""
    try:
        import ctypes
        ctypes.CDLL("libc.so.6").prctl(1, 9)      # PR_SET_PDEATHSIG, SIGKILL
    except Exception:
        pass


STAT_RE = re.compile(r"(\d+) states generated, (\d+) distinct states found")


def run_tlc(model, cfg, wd, mode="bfs", workers=4, timeout=900, seed=None, xmx="6g", allow_violation=False):
    """Run TLC on spec/<model>.tla with the given cfg text. mode: "bfs" or ("sim", num, depth).
    Returns (output path, distinct states, states generated)."""
    cfgp = os.path.join(wd, os.path.basename(model).replace(".tla", "") + ".cfg")
    with open(cfgp, "w") as f:
        f.write(cfg)
    out = os.path.join(wd, os.path.basename(model).replace(".tla", "") + ".out")
    cmd = ["java", "-XX:+UseParallelGC", "-Xmx" + xmx, "-Xss512m", "-DTLA-Library=" + SPEC, "-cp", JARS, "tlc2.TLC",
           "-metadir", os.path.join(wd, "meta"), "-noGenerateSpecTE", "-config", cfgp]
    if mode == "bfs":
        cmd += ["-workers", str(workers)]
    else:
        cmd += ["-workers", "1", "-simulate", "num=%d" % mode[1], "-depth", str(mode[2])]
        if seed is not None:
            cmd += ["-seed", str(seed)]
    cmd.append(model if os.path.isabs(model) else os.path.join(SPEC, model + ".tla"))
    model = os.path.basename(model).replace(".tla", "")
    t0 = time.time()
    with open(out, "w") as f:
        try:
            p = subprocess.run(cmd, stdout=f, stderr=subprocess.STDOUT, timeout=timeout, cwd=wd, preexec_fn=_die_with_parent)
        except subprocess.TimeoutExpired:
            raise ToolError("TLC timed out on %s" % model)
    txt = open(out, errors="replace").read()
    shutil.rmtree(os.path.join(wd, "meta"), ignore_errors=True)
    if mode == "bfs":
        if "Model checking completed. No error has been found." not in txt and not (allow_violation and "is violated" in txt):
            raise ToolError("TLC reported an error on %s; see %s\n%s" % (model, out, tail_errors(txt)))
        m = STAT_RE.findall(txt)
        gen, dist = (int(m[-1][0]), int(m[-1][1])) if m else (0, 0)
    else:
        if "Error:" in txt and "The number of states generated" not in txt and "Progress" not in txt:
            raise ToolError("TLC simulation failed on %s; see %s\n%s" % (model, out, tail_errors(txt)))
        m = re.findall(r"The number of states generated: (\d+)", txt)
        gen = int(m[-1]) if m else 0
        dist = gen
    log("tlc %s %s: %d distinct / %d generated, %.1fs" % (model, mode, dist, gen, time.time() - t0))
    return out, dist, gen


def run_tlc_sims(model, cfg, wd, num, depth, seed, par=8, timeout=900):
    """num random behaviours of the given depth, split over `par` TLC simulators with distinct seeds."""
    par = max(1, min(par, num))
    per = (num + par - 1) // par

    def one(k):
        d = os.path.join(wd, "sim%d" % k)
        os.makedirs(d, exist_ok=True)
        return run_tlc(model, cfg, d, mode=("sim", per, depth), seed=seed * 1000 + k, timeout=timeout, xmx="2g")

    outs, gen = [], 0
    with cf.ThreadPoolExecutor(max_workers=par) as ex:
        for out, dist, g in ex.map(one, range(par)):
            outs.append(out)
            gen += g
    return outs, gen, gen


def run_apalache(spec, init, inv, length, wd, timeout=900):
    """apalache-mc check --init=<init> --inv=<inv> --length=<n>; returns True iff no error was found (EXITCODE: OK)."""
    out = os.path.join(wd, "apalache_%s_%s_%d.out" % (init, inv, length))
    cmd = ["apalache-mc", "check", "--init=" + init, "--inv=" + inv, "--length=%d" % length, "--out-dir=" + os.path.join(wd, "_apalache-out"),
           os.path.join(SPEC, spec + ".tla")]
    t0 = time.time()
    with open(out, "w") as f:
        try:
            subprocess.run(cmd, stdout=f, stderr=subprocess.STDOUT, timeout=timeout, cwd=wd)
        except subprocess.TimeoutExpired:
            raise ToolError("apalache timed out on %s" % spec)
    txt = open(out, errors="replace").read()
    shutil.rmtree(os.path.join(wd, "_apalache-out"), ignore_errors=True)
    log("apalache %s init=%s inv=%s length=%d: %s, %.1fs" % (spec, init, inv, length, "OK" if "EXITCODE: OK" in txt else "NOT OK", time.time() - t0))
    return "EXITCODE: OK" in txt


def tail_errors(txt):
    ls = [l for l in txt.splitlines() if "rror" in l or "xception" in l]
    return "\n".join(ls[:12])


def run_harness(driver, inp, outp, extra=(), timeout=900):
    try:
        p = subprocess.run([HARNESS, driver, inp, outp] + list(extra), stdout=subprocess.PIPE, stderr=subprocess.PIPE,
                           text=True, timeout=timeout, preexec_fn=_die_with_parent)
    except subprocess.TimeoutExpired:
        raise ToolError("harness %s timed out" % driver)
    if p.returncode != 0:
        raise ToolError("harness %s failed (%d): %s" % (driver, p.returncode, (p.stderr or p.stdout)[-2000:]))
    return p.stdout


def run_monitor(trace_spec, trace, wd, timeout=1800, xmx="3g"):
    """Run a TLC trace monitor; returns the VERDICTS object."""
    out = os.path.join(wd, "mon.out")
    env = dict(os.environ, TRACE=trace, JAVA_TOOL_OPTIONS="-Xss1g -Dtlc2.tool.queue.IStateQueue=StateDeque")
    cmd = ["java", "-XX:+UseParallelGC", "-Xmx" + xmx, "-cp", JARS, "tlc2.TLC", "-workers", "1",
           "-metadir", os.path.join(wd, "meta"), "-noGenerateSpecTE",
           "-config", os.path.join(SPEC, trace_spec + ".cfg"), os.path.join(SPEC, trace_spec + ".tla")]
    with open(out, "w") as f:
        try:
            subprocess.run(cmd, stdout=f, stderr=subprocess.STDOUT, timeout=timeout, env=env, cwd=wd, preexec_fn=_die_with_parent)
        except subprocess.TimeoutExpired:
            raise ToolError("monitor %s timed out" % trace_spec)
    shutil.rmtree(os.path.join(wd, "meta"), ignore_errors=True)
    vs = list(extract(out, "VERDICTS"))
    if not vs:
        raise ToolError("monitor %s produced no verdict; see %s\n%s" % (trace_spec, out, tail_errors(open(out, errors='replace').read())))
    v = json.loads(vs[-1])
    if v.get("consumed") != v.get("total"):
        raise ToolError("monitor %s consumed %s of %s records" % (trace_spec, v.get("consumed"), v.get("total")))
    return v


CHUNK = 12000      # histories per harness + monitor run


def conformance(name, trace_spec, constants, timeout=1800):
    """Run a trace-validation monitor (spec/<trace_spec>.tla, SPECIFICATION ConfSpec, POSTCONDITION ConfPost printing CONFORMANCE) with the
    given constants over every trace file that replay_and_judge(name, ..., keep_traces=True) left behind; returns the summed result."""
    import glob
    wd = os.path.join(WORK, name)
    traces = sorted(glob.glob(os.path.join(wd, "s*", "trace.ndjson")))
    if not traces:
        raise ToolError("no traces kept for %s" % name)
    cfgp = os.path.join(wd, trace_spec + ".cfg")
    with open(cfgp, "w") as f:
        f.write(cfg_text(constants, spec="ConfSpec", extra=["POSTCONDITION ConfPost"]))

    def one(tr):
        d = os.path.dirname(tr)
        out = os.path.join(d, "conf.out")
        env = dict(os.environ, TRACE=tr, JAVA_TOOL_OPTIONS="-Xss1g -Dtlc2.tool.queue.IStateQueue=StateDeque")
        cmd = ["java", "-XX:+UseParallelGC", "-Xmx3g", "-DTLA-Library=" + SPEC, "-cp", JARS, "tlc2.TLC", "-workers", "1", "-metadir", os.path.join(d, "cmeta"),
               "-noGenerateSpecTE", "-config", cfgp, os.path.join(SPEC, trace_spec + ".tla")]
        with open(out, "w") as f:
            try:
                subprocess.run(cmd, stdout=f, stderr=subprocess.STDOUT, timeout=timeout, env=env, cwd=d, preexec_fn=_die_with_parent)
            except subprocess.TimeoutExpired:
                raise ToolError("conformance monitor %s timed out" % trace_spec)
        shutil.rmtree(os.path.join(d, "cmeta"), ignore_errors=True)
        vs = list(extract(out, "CONFORMANCE"))
        if not vs:
            raise ToolError("conformance monitor %s produced nothing; see %s\n%s" % (trace_spec, out, tail_errors(open(out, errors="replace").read())))
        return json.loads(vs[-1])

    t0 = time.time()
    tot = {"recs": 0, "hists": 0, "conform": 0, "skipped": 0, "first": []}
    with cf.ThreadPoolExecutor(max_workers=min(len(traces), 12)) as ex:
        for v in ex.map(one, traces):
            for k in ("recs", "hists", "conform", "skipped"):
                tot[k] += v.get(k, 0)
            tot["first"] = (tot["first"] + list(v.get("first") or []))[:5]
    log("conformance %s (%s): %d of %d histories (%d records) are behaviours of the implementation-shaped model, %.1fs"
        % (name, trace_spec, tot["conform"], tot["hists"] - tot["skipped"], tot["recs"], time.time() - t0))
    return tot


def shard(items, n):
    n = max(1, min(n, len(items)))
    return [items[i::n] for i in range(n)]


def replay_and_judge(name, histories, driver, trace_spec, shards=8, harness_extra=(), keep_traces=False):
    """histories: list of dicts (each gets an 'h'). Returns (verdicts list, stats dict, records)."""
    wd = workdir(name)
    if isinstance(histories, Hists):
        lines = ['{"h":%d,%s' % (n + 1, r.lstrip()[1:]) for n, r in enumerate(histories.raws)]
    else:
        for n, h in enumerate(histories):
            h["h"] = n + 1
        lines = [json.dumps(h, separators=(",", ":")) for h in histories]
    # one harness run and one monitor run per chunk: a monitor reads its whole trace into memory, so the chunks are bounded
    nchunks = max(1, min(shards, len(lines)), (len(lines) + CHUNK - 1) // CHUNK)
    parts = [lines[i::nchunks] for i in range(nchunks)]
    del lines

    def one(k):
        d = os.path.join(wd, "s%d" % k)
        os.makedirs(d, exist_ok=True)
        inp = os.path.join(d, "in.ndjson")
        with open(inp, "w") as f:
            for l in parts[k]:
                f.write(l + "\n")
        parts[k] = None
        tr = os.path.join(d, "trace.ndjson")
        run_harness(driver, inp, tr, harness_extra)
        v = run_monitor(trace_spec, tr, d)
        if nchunks > shards and not keep_traces:          # many chunks: the traces are large, keep only what a failure needs
            for f in (tr, inp):
                try:
                    os.remove(f)
                except OSError:
                    pass
        return v

    bad, st, total = [], {}, 0
    t0 = time.time()
    with cf.ThreadPoolExecutor(max_workers=min(len(parts), shards, NCPU)) as ex:
        for v in ex.map(one, range(len(parts))):
            bad.extend(v["bad"] if isinstance(v["bad"], list) else [])
            total += v["total"]
            for k, x in (v.get("st") or {}).items():
                st[k] = st.get(k, 0) + x
    log("replay+judge %s: %d histories, %d records, %d verdicts, %.1fs" % (name, len(histories), total, len(bad), time.time() - t0))
    return bad, st, total


# ----------------------------------------------------------------------------------------------
# known findings, replay files, evidence

def load_known():
    p = os.path.join(ROOT, "known_findings.json")
    if not os.path.exists(p):
        return []
    return json.load(open(p)).get("findings", [])


def write_replay(pid, n, payload):
    d = os.path.join(ROOT, "replays")
    os.makedirs(d, exist_ok=True)
    p = os.path.join(d, "%s-%d.json" % (pid, n))
    with open(p, "w") as f:
        json.dump(payload, f, indent=1)
    return p


def write_evidence(pid, tier, seed, level, coverage, assumptions, wall, violations):
    d = os.path.join(ROOT, "evidence")
    os.makedirs(d, exist_ok=True)
    # keys the evidence schema reserves for counts / fixed types
    for k in ("evaluations", "distinct_nontrivial", "states", "transitions", "traces_validated_against_impl", "obligations", "discharged", "programs", "disagreements_checked"):
        if k in coverage and not (isinstance(coverage[k], int) and not isinstance(coverage[k], bool) and coverage[k] >= 0):
            raise ToolError("evidence key coverage.%s must be a non-negative integer" % k)
    for k, t in (("rule", str), ("samples", list), ("checker_cmd", str), ("trusted_base", list), ("explanation", str), ("exhaustive", bool)):
        if k in coverage and not isinstance(coverage[k], t):
            raise ToolError("evidence key coverage.%s has the wrong type" % k)
    ev = {"property_id": pid, "tier": tier, "seed": seed, "level": level, "coverage": coverage,
          "assumptions": assumptions, "wall_s": round(wall, 2), "violations": violations}
    with open(os.path.join(d, pid + ".json"), "w") as f:
        json.dump(ev, f, indent=1)


class Hists:
    """Generated histories kept as raw JSON text and parsed on access (millions of dicts do not fit in memory).
    Item i carries h = i + 1, the number replay_and_judge gives it."""
    def __init__(self, raws):
        self.raws = raws

    def __len__(self):
        return len(self.raws)

    def __bool__(self):
        return bool(self.raws)

    def __getitem__(self, i):
        if isinstance(i, slice):
            return [self[j] for j in range(*i.indices(len(self.raws)))]
        if i < 0:
            i += len(self.raws)
        h = json.loads(self.raws[i])
        h["h"] = i + 1
        return h

    def __iter__(self):
        for i in range(len(self.raws)):
            yield self[i]


def by_h(hs):
    """lookup of a history by the number replay_and_judge gave it"""
    if isinstance(hs, Hists):
        return lambda n: hs[n - 1]
    d = {h["h"]: h for h in hs}
    return lambda n: d[n]


def histories_from(out_path, tag="REPLAY", lazy=False):
    if lazy:
        return Hists(list(extract(out_path, tag)))
    return [json.loads(s) for s in extract(out_path, tag)]
