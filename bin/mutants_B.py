#!/usr/bin/env python3
"""Mutation self-test for C12 / C13 / C11: apply one small source mutant to /tmp/b/repo-B (on top of the D9 patch),
run bin/check <prop> quick, record exit code and the first VIOLATION line, restore the source."""
import subprocess, shutil, sys, os, time
REPO = os.path.realpath(os.path.join(os.path.dirname(os.path.abspath(__file__)), "..", "repo-link"))
VERIF = os.path.dirname(os.path.dirname(os.path.abspath(__file__)))
M = [
 # (id, property, file, old, new, description)
 ("M12-1", "C12", "src/style.rs", "Alignment::Right => (diff, 0),", "Alignment::Right => (0, diff),", "right alignment pads on the right (swapped alignment)"),
 ("M12-2", "C12", "src/style.rs", "return write_columns(f, self.str, start, start + self.width);", "return write_columns(f, self.str, start, start + self.width + 1);", "truncation keeps W+1 columns (off by one)"),
 ("M12-3", "C12", "src/style.rs", "kept = start <= lo && hi <= end;", "kept = start < hi && lo < end;", "a double-width character straddling the cut is kept whole"),
 ("M12-4", "C12", "src/style.rs", "Alignment::Center => excess / 2,\n            };\n\n            return write_columns", "Alignment::Center => excess,\n            };\n\n            return write_columns", "centre truncation keeps the end instead of the middle"),
 ("M12-5", "C12", "src/style.rs", "let left = (width as usize).saturating_sub(measure_text_width(&cur.replace('\\x00', \"\")));", "let left = (width as usize).saturating_sub(cur.replace('\\x00', \"\").len());", "wide_msg measures the rest of the line in bytes"),
 ("M12-6", "C12", "src/style.rs", "if is_ansi {\n            f.write_str(part)?;\n            continue;\n        }", "if is_ansi {\n            f.write_str(&part[..part.len() - 1])?;\n            continue;\n        }", "escape sequences lose their final byte when truncating (dropped escape)"),
 ("M13-1", "C13", "src/style.rs", "let entirely_filled = fill as usize;", "let entirely_filled = fill.round() as usize;", "filled cells rounded to nearest instead of down"),
 ("M13-2", "C13", "src/style.rs", "let head = usize::from(fill > 0.0 && entirely_filled < width);", "let head = usize::from(entirely_filled < width);", "head drawn on an empty bar"),
 ("M13-3", "C13", "src/style.rs", "let width = width / self.char_width;", "let width = width / 1;", "cluster width ignored (twice the cells for 2-column clusters)"),
 ("M13-4", "C13", "src/state.rs", "(pos, Some(len)) => pos as f32 / len as f32,", "(pos, Some(len)) => pos as f32 / (len as f32 + 1.0),", "fraction divides by len+1 (never full at pos = len)"),
 ("M13-5", "C13", "src/style.rs", "let left = (width as usize).saturating_sub(measure_text_width(&cur.replace('\\x00', \"\")));", "let left = (width as usize).saturating_sub(measure_text_width(&cur.replace('\\x00', \"\"))) + 1;", "wide_bar one column too wide"),
 ("M13-6", "C13", "src/style.rs", "let bg = width.saturating_sub(entirely_filled).saturating_sub(head);", "let bg = width.saturating_sub(entirely_filled);", "background not reduced by the head cell (one cell too many)"),
 ("M11-1", "C11", "src/style.rs", "buf.write_fmt(format_args!(\"{}\", HumanCount(len))).unwrap();", "buf.write_fmt(format_args!(\"{}\", HumanCount(pos))).unwrap();", "human_len shows the position"),
 ("M11-2", "C11", "src/style.rs", "let len = state.len().unwrap_or(pos);", "let len = state.len().unwrap_or(0);", "a missing length renders as 0"),
 ("M11-3", "C11", "src/style.rs", "true => self.get_final_tick_str(),", "true => self.get_tick_str(state.tick),", "spinner keeps cycling after finish"),
 ("M11-4", "C11", "src/style.rs", "&self.tick_strings[(idx as usize) % (self.tick_strings.len() - 1)]", "&self.tick_strings[(idx as usize) % self.tick_strings.len()]", "tick strings cycle through the final string too"),
 ("M11-5", "C11", "src/state.rs", "tracker.reset(&self.state, now);", "let _ = &tracker;", "custom trackers are not reset with the bar"),
 ("M11-6", "C11", "src/style.rs", ".write_fmt(format_args!(\"{:#}\", HumanDuration(state.eta())))", ".write_fmt(format_args!(\"{:#}\", HumanDuration(state.duration())))", "eta shows the total duration"),
 ("M11-7", "C11", "src/state.rs", "tracker.tick(&self.state, now);", "let _ = &tracker;", "custom trackers are not ticked with the bar"),
 ("M11-8", "C11", "src/style.rs", ".write_fmt(format_args!(\"{}\", DecimalBytes(pos)))", ".write_fmt(format_args!(\"{}\", BinaryBytes(pos)))", "decimal_bytes uses binary prefixes"),
 ("M11-9", "C11", "src/state.rs", "self.state.tick = self.state.tick.saturating_add(1);", "self.state.tick = self.state.tick.saturating_add(2);", "a tick advances the spinner by two"),
]
only = set(sys.argv[1:])
for (mid, prop, fn, old, new, desc) in M:
    if only and mid not in only and prop not in only: continue
    path = os.path.join(REPO, fn)
    src = open(path).read()
    if src.count(old) != 1:
        print("%s SKIP: pattern occurs %d times" % (mid, src.count(old))); continue
    shutil.copy(path, path + ".orig")
    open(path, "w").write(src.replace(old, new))
    t0 = time.time()
    p = subprocess.run(["bin/check", prop, "quick"], cwd=VERIF, stdout=subprocess.PIPE, stderr=subprocess.DEVNULL, text=True)
    shutil.move(path + ".orig", path); os.utime(path, None)   # new mtime so that cargo rebuilds
    v = [l for l in p.stdout.splitlines() if l.startswith("VIOLATION") or l.startswith("TOOL-ERROR")]
    first = v[0].split(" ", 3)[3][:110] if v else ""
    print("%s %s exit=%d violations=%d %.0fs | %s | %s" % (mid, prop, p.returncode, len([x for x in v if x.startswith('VIOLATION')]), time.time() - t0, desc, first), flush=True)
