#!/usr/bin/env python3
import json,sys
def txt(m): return ''.join(chr(c) if 32<=c<127 else '<%d>'%c for c in m)
for p in sys.argv[1:]:
    r=json.load(open(p)); h=r['history']
    print(p.split('/')[-1], r['rule'], h['cfg'])
    for o in h['ops']:
        extra=' '.join('%s=%s'%(k,(txt(v) if isinstance(v,list) else v)) for k,v in o.items() if k in('tpl','fin','m','m0','idx','b2','a','n','dt') and v not in ('',0,[],None))
        print('    ', o['op'], 'b=%s'%o.get('b'), extra)
