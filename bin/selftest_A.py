#!/usr/bin/env python3
"""selftest_A.py [name prefix...]: mutation self-test of the C10 / C14 checks. Applies each source mutant to src/style.rs of the
library working tree behind repo-link (which must contain the D6 D7 D8 D24 repairs), runs bin/check <id> quick, restores the
file. Every mutant must give exit=1. Do not run while another check uses the same tree."""
import subprocess, sys
import os
ROOT=os.path.dirname(os.path.dirname(os.path.abspath(__file__)))
P=os.path.join(os.path.realpath(os.path.join(ROOT,'repo-link')),'src','style.rs')
M=[
 ("C10","M10-1 dropped '{{' escape", """                (MaybeOpen, '{') => (Literal, Some('{')),""", """                (MaybeOpen, '{') => (Literal, None),"""),
 ("C10","M10-2 width parsed as u8", """                            buf.parse()
                                .map_err(""", """                            buf.parse::<u8>().map(u16::from)
                                .map_err("""),
 ("C10","M10-3 literal before newline not flushed", """                    if !buf.is_empty() {
                        parts.push(TemplatePart::Literal(TabExpandedString::new(
                            mem::take(&mut buf).into(),
                            tab_width,
                        )));
                    }
                    parts.push(TemplatePart::NewLine);""", """                    parts.push(TemplatePart::NewLine);"""),
 ("C10","M10-4 unknown key expands to its name", """                            _ => (),
                        }
                    };""", """                            _ => buf.push_str(key),
                        }
                    };"""),
 ("C10","M10-5 alt style sliced by byte offset (panic on multi-byte)", """                        *alt_style = Some(Style::from_dotted_str(&buf));""", """                        *alt_style = Some(Style::from_dotted_str(&buf[1..]));"""),
 ("C10","M10-6 whitespace back-track drops the whitespace", """                    new.push(c);
                    buf.clear();""", """                    buf.clear();"""),
 ("C14","M14-1 tick_chars accepts one character", """            self.tick_strings.len() >= 2,
            "at least 2 tick chars required\"""", """            self.tick_strings.len() >= 1,
            "at least 2 tick chars required\""""),
 ("C14","M14-2 unequal progress widths not rejected", """                Some(old) => assert_eq!(old, new, "got passed un-equal width progress characters"),""", """                Some(_) => (),"""),
 ("C14","M14-3 final tick string index off by one", """        &self.tick_strings[self.tick_strings.len() - 1]""", """        &self.tick_strings[self.tick_strings.len()]"""),
 ("C14","M14-4 current progress char index off by one without fine-grained entries", """                // do" entry if not.
                1""", """                // do" entry if not.
                2"""),
 ("C14","M14-5 progress_chars rejects three clusters", """            self.progress_chars.len() >= 2,
            "at least 2 progress chars required\"""", """            self.progress_chars.len() == 2 || self.progress_chars.len() > 3,
            "at least 2 progress chars required\""""),
]
only=sys.argv[1:]
base=open(P).read()
for pid,name,a,b in M:
    if only and not any(name.startswith(o) for o in only): continue
    assert base.count(a)==1,(name,base.count(a))
    open(P,'w').write(base.replace(a,b))
    try:
        r=subprocess.run(['bin/check',pid,'quick'],cwd=ROOT,stdout=subprocess.PIPE,stderr=subprocess.DEVNULL,text=True)
        v=[l for l in r.stdout.splitlines() if l.startswith('VIOLATION')]
        print("MUTANT %s | %s exit=%d violations=%d | %s" % (pid,name,r.returncode,len(v), ' || '.join(x.split('json ',1)[1][:140] for x in v[:3])),flush=True)
    finally:
        open(P,'w').write(base)
