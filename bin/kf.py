"""Known-finding predicates: each names a narrow class of failing histories of a defect that is
recorded in /verif/known_findings.json (and described in DESIGN.md section 5). A failure is
attributed to a finding only if the predicate holds for the failing history prefix and verdict;
everything else is reported as a VIOLATION."""


def classify(cfg, prefix, verdict):
    out = []
    for name, fn in PREDICATES.items():
        try:
            if fn(cfg, prefix, verdict):
                out.append(name)
        except Exception:
            pass
    return out


def _ever_bottom(cfg, prefix):
    if (cfg.get("mp") or {}).get("align") == "bottom":
        return True
    return any(o.get("op") == "mp_set_alignment" and o.get("a") == "bottom" for o in prefix)


def kf_d18(cfg, prefix, v):
    """Bottom alignment with blank filler lines above the bars: the lines of a finished bar that
    is dropped while it is the first bar are kept by subtracting them from the lines to clear,
    but the lines counted from the bottom then cover the dropped bar instead of the filler, so
    its final rendering is erased by the next draw (no println/clear/suspend/remove needed)."""
    if v["rule"] != "ScreenOK":
        return False
    # a bar is dropped while bottom alignment is (or has been) in force
    first_bottom = 0 if (cfg.get("mp") or {}).get("align") == "bottom" else next((i for i, o in enumerate(prefix) if o.get("op") == "mp_set_alignment" and o.get("a") == "bottom"), None)
    return first_bottom is not None and any(o.get("op") == "drop" for o in prefix[first_bottom:])


def _early_wrap_line(line, w, off):
    col = off % w if w else 0
    for g in line:
        k = 1 if g < 1000 else (2 if g < 2000 else 0)
        if k == 2 and col + 2 > w and col < w:
            return True            # a 2-column glyph with one free column left: wraps early
        if col + k > w:
            col = 0
        col += k
    return False


def _has_early_wrap(cfg, prefix):
    """Some text handed to the library has a line in which a 2-column glyph (cells 1000..1999) meets
    the right edge with a single free column, so the row ends one column early. The line may start
    at column 0 or after a template literal / prefix of up to 2 columns."""
    w = cfg.get("w", 80)
    # templates in which every text starts a row (nothing in front of the message / prefix on its line): offset 0 only
    tpls = {o.get("tpl") for o in prefix if o.get("tpl")}
    offs = (0,) if tpls <= {"M", "PnM", "MnC", "MC", "C", "P"} else (0, 1, 2)
    for o in prefix:
        for key in ("m", "m0", "p0", "fm"):
            c = o.get(key)
            if not isinstance(c, list) or not any(isinstance(x, int) and 1000 <= x < 2000 for x in c):
                continue
            line = []
            for g in c + [10]:
                if g == 10:
                    if any(_early_wrap_line(line, w, off) for off in offs):
                        return True
                    line = []
                else:
                    line.append(g)
    return False


def kf_d14(cfg, prefix, v):
    """wrapped_height = ceil(columns / width) ignores that a 2-column glyph that does not fit in the
    last column wraps early; frame rows and the right-edge filler are then miscounted."""
    return v["rule"] in ("ScreenOK", "CursorOK", "LogOK") and _has_early_wrap(cfg, prefix)


def kf_d20(cfg, prefix, v):
    """Static lines of dropped bars plus the live bars need more rows than the terminal has: the
    height check only counts live bar lines, so a println/clear/suspend that has to erase the
    static lines cannot reach the ones that scrolled out of the viewport and erases them partly."""
    return (v["rule"] in ("ScreenOK", "LogOK") and cfg.get("mp") is not None and cfg.get("h", 99) <= 6
            and v["op"] in ("mp_println", "mp_clear", "mp_suspend", "suspend", "println")
            and any(o.get("op") == "drop" for o in prefix))


PREDICATES = {"KF-D18": kf_d18, "KF-D14": kf_d14, "KF-D20": kf_d20}


def classify_c05(hist, verdict):
    return []


def matches(kid, history, verdict):
    """Does the verdict on this history belong to known finding `kid`? (used for the witnesses that are replayed on every run)"""
    if kid == "KF-D22":
        return verdict.get("rule") == "DecayMonotoneLag"
    fn = PREDICATES.get(kid)
    if fn is None:
        return False
    return bool(fn(history.get("cfg", {}), history.get("ops", [])[:verdict.get("i", 0)], verdict))
