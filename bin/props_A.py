"""C10 (template parsing is total and preserves literal text) and C14 (every style the builder accepts
can be rendered): TLC generates strings / templates / builder call sequences from the specifications,
the harness drivers `tpl` and `stylebuild` run them on the real library, the TLC monitors
Trace_Template / Trace_Style judge every record."""
import concurrent.futures as cf

import vlib


def gen(name, model, constants, mode="bfs", view=None, invariants=("TypeOK",)):
    return dict(name=name, model=model, constants=constants, mode=mode, view=view, invariants=list(invariants))


def run_gens(pid, tier, seed, gens, driver, monitor, note, assumptions, need, shards=6, design=None):
    """gens: list of gen(...). The TLC generators run 3 at a time (2 workers each), then each family is
    replayed on the real code and judged by the monitor. need: clause counters that must be non-zero."""
    def generate(g):
        wd = vlib.workdir("%s_%s_gen" % (pid, g["name"]))
        cfg = vlib.cfg_text(g["constants"], invariants=g["invariants"], view=g["view"])
        if g["mode"] == "bfs":
            out, dist, n = vlib.run_tlc(g["model"], cfg, wd, workers=2, xmx="3g")
            hs = vlib.histories_from(out)
        else:
            outs, dist, n = vlib.run_tlc_sims(g["model"], cfg, wd, g["mode"][1], g["mode"][2], seed, par=2)
            hs = [h for o in outs for h in vlib.histories_from(o)]
        if not hs:
            raise vlib.ToolError("%s generated no behaviours" % g["name"])
        return hs, dist, n

    with cf.ThreadPoolExecutor(max_workers=3) as ex:
        generated = list(ex.map(generate, gens))
    # all families share the driver and the monitor: one sharded replay (one JVM start per shard)
    states = trans = 0
    samples, fams, fails, hs_all, fam_of = [], [], [], [], []
    for g, (hs, dist, n) in zip(gens, generated):
        states += dist
        trans += n
        if len(samples) < 4:
            samples.append({"family": g["name"], "behaviour": hs[len(hs) // 2]})
        fams.append({"family": g["name"], "model": g["model"], "mode": str(g["mode"]), "invariants": g["invariants"], "behaviours": len(hs),
                     "verdicts": 0, "tlc_distinct_states": dist, "tlc_states_generated": n})
        hs_all.extend(hs)
        fam_of.extend([len(fams) - 1] * len(hs))
    bad, stats, nrec = vlib.replay_and_judge(pid, hs_all, driver, monitor, shards=shards)
    nh = len(hs_all)
    for v in bad:
        h = hs_all[v["h"] - 1]
        f = fams[fam_of[v["h"] - 1]]
        f["verdicts"] += 1
        rep = dict(h)
        rep["ops"] = h.get("ops", [])[:v["i"]]
        rep["h"] = 1
        fails.append(dict(cls="%s/%s" % (v["rule"], v.get("op", "")), rule=v["rule"], n=(len([c for c in rep["ops"] if c.get("op") in BUILDER_OPS]), len(rep["ops"]), len(str(rep["ops"][-1:]))), kf=[],
                          what="rule=%s op=%s family=%s step=%s %s" % (v["rule"], v.get("op", ""), f["family"], v["i"], describe(rep["ops"])),
                          replay={"driver": driver, "monitor": monitor, "rule": v["rule"], "verdict": v, "history": rep}))
    missing = [k for k in need if stats.get(k, 0) == 0]
    if missing and not fails:          # a verdict cuts its history short: counters may stay at zero because every history failed earlier
        raise vlib.ToolError("vacuous run: clause counters %s are zero: %s" % (missing, stats))
    fails.sort(key=lambda x: x["n"])       # smallest witness first per class
    coverage = dict(states=states, transitions=trans, traces_validated_against_impl=nh, records_validated=nrec, samples=samples,
                    clause_counts=stats, families=fams, rule=note, exhaustive=all(g["mode"] == "bfs" for g in gens))
    if design:
        coverage["design_level"] = design
    return dict(level="model_checking", coverage=coverage, assumptions=assumptions, failures=fails)


def describe(ops):
    """short human-readable form of the failing behaviour prefix for the VIOLATION line"""
    if not ops:
        return ""
    o = ops[-1]
    if isinstance(o.get("tpl"), list):
        return "template=%r" % "".join(chr(c) if c < 256 else "<%d>" % c for c in o["tpl"])
    if o.get("op") == "soup":
        return "soup seed=%s len=%s" % (o.get("seed"), o.get("len"))
    calls = ["%s(%s)" % (c["op"], c.get("tpl", c.get("arg", c.get("args", "")))) for c in ops if c.get("op") in BUILDER_OPS]
    return ("calls=" + ".".join(calls) + " at " + " ".join("%s=%s" % (k, o[k]) for k in ("op", "k", "n", "w", "len", "idx") if k in o))[:300].replace(" ", "")


BUILDER_OPS = ("with_template", "template", "tick_chars", "tick_strings", "progress_chars", "with_key")


# ----------------------------------------------------------------------------------------------
# C10

ALLKEYS = {"k", "zz", "pos", "len", "msg", "prefix"}
ALLW = {"", "0", "1", "3", "05", "65535", "65536", "99999999999"}


def grammar(name, D, MaxPh, LitChars, Specials=(), Keys=("k",), Colons=("auto",), Aligns=("",), Widths=("",), Truncs=(False,), Styles=("",),
            Colors=False, mode="bfs"):
    c = dict(D=D, MaxPh=MaxPh, LitChars=set(LitChars), Specials=set(Specials), Keys=set(Keys), Colons=set(Colons), Aligns=set(Aligns),
             Widths=set(Widths), Truncs=set(Truncs), Styles=set(Styles), Colors=Colors, BacktrackMode="fixed", OverflowMode="err")
    # tlc -simulate evaluates invariants on every candidate successor: the design-level comparison is left to the exhaustive families
    return gen(name, "MC_TemplateGrammar", c, mode=mode, invariants=("TypeOK", "DesignOK") if mode == "bfs" else ("TypeOK",))


def c10(pid, tier, seed):
    q = tier == "quick"
    pc = dict(N=12, Seed=seed % 20000, NSoup=1, WidthOverflow="err", Backtrack="fixed")
    gens = [
        gen("cover", "MC_TemplateParser", dict(pc, Mode="cover"), view="CoverView2", invariants=("TypeOK", "Total")),
        gen("all_classes", "MC_TemplateParser", dict(pc, Mode="all", N=4 if q else 5), invariants=("TypeOK", "Total")),
        gen("soup", "MC_TemplateParser", dict(pc, Mode="soup", NSoup=100 if q else 1000)),
        grammar("g_shapes", 4 if q else 5, 4, (97, 32), Specials=("LB", "RB", "NL", "BS", "BN"), Keys=("k", "zz"), Widths=("", "3")),
        grammar("g_specs", 3, 1, (97,), Keys=("k", "zz", "pos", "msg") if q else ALLKEYS | {"Zz9"}, Aligns=("", "<", "^", ">"), Widths=ALLW, Truncs=(False, True),
                Styles=("", "rb") if q else ("", "r", "rb", "x")),
        grammar("g_colon_colors", 2 if q else 3, 2, (97,), Keys=("k", "msg"), Colons=("always",), Aligns=("", "^"), Widths=("", "3"), Truncs=(False, True),
                Styles=("", "r", "rb", "x"), Colors=True),
        grammar("g_pairs", 2, 2, (), Keys=("k", "zz", "pos") if q else ALLKEYS, Aligns=("", ">"), Widths=("", "3") if q else ("", "3", "65535"), Truncs=(False, True),
                Styles=("",) if q else ("", "rb")),
        grammar("g_wide_msg", 4 if q else 5, 3, (97,), Specials=("NL",), Keys=("wide_msg", "pos", "k")),
        # wide elements of different kinds on different lines of one template
        grammar("g_wide_mix", 4 if q else 5, 3, (97,), Specials=("NL",), Keys=("wide_msg", "wide_bar", "pos")),
        # unknown keys that contain a documented one (binary_pos, human_msg, pos_, Pos, ...): they expand to nothing like any other unknown key
        grammar("g_nearkeys", 2 if q else 3, 2, (97,), Keys=("pos", "binary_pos", "human_msg", "pos_", "xmsg", "len2", "decimal_len", "msgs", "wide_pos", "total_pos", "pos_precise",
                                                      "per_sec_pos", "Pos", "wide_prefix", "binary_msg"), Aligns=("", ">"), Widths=("", "3")),
        # style words the colour library does not know (.italic, .orange/blue, .red.sparkly/grey) on msg, prefix, pos and bar-less keys
        grammar("g_unknown_styles", 3 if q else 4, 2, (97,), Keys=("msg", "pos", "k", "zz"), Aligns=("", ">"), Widths=("", "3"), Styles=("u", "ub", "ru", "r")),
        # an opening brace followed by a TAB stands for itself like one followed by a blank or a line break
        grammar("g_brace_tab", 3 if q else 4, 2, (97, 34), Specials=("BT", "BS", "RB"), Keys=("pos", "k")),
        grammar("g_json", 4 if q else 5, 3, (34, 58, 32, 97), Specials=("LB", "RB", "BS"), Keys=("k", "pos")),
        grammar("g_literals", 3 if q else 4, 2, (97, 58, 33, 46, 47, 60, 55, 233, 1000), Specials=("LB", "BS"), Keys=("k",), Widths=("", "1")),
        grammar("g_deep", 14, 5, (97, 32, 34, 58, 55, 233), Specials=("LB", "RB", "NL", "BS", "BN"), Keys=ALLKEYS, Aligns=("", "<", "^", ">"),
                Widths=("", "0", "1", "3", "65535", "65536"), Truncs=(False, True), Styles=("", "rb"), mode=("sim", 400 if q else 20000, 16)),
    ]
    if not q:
        gens.append(grammar("g_long", 40, 12, (97, 32, 34, 58, 55, 233, 1000), Specials=("LB", "RB", "NL", "BS", "BN"), Keys=ALLKEYS, Aligns=("", "<", "^", ">"),
                            Widths=("", "0", "1", "3", "05", "65535", "65536", "99999999999"), Truncs=(False, True), Styles=("", "r", "rb", "x"),
                            mode=("sim", 4000, 42)))
    return run_gens(pid, tier, seed, gens, "tpl", "Trace_Template",
                    "strings: transition cover of the 8-state parser model (one per abstract transition, four character instantiations each), every class string up to "
                    "length N over 12 classes, seeded random Unicode / byte soup; well-formed templates: every concatenation of up to D grammar pieces per family "
                    "(escapes, newline, '{'+whitespace, placeholders with every combination of key / alignment / width 0..99999999999 / '!' / styles, JSON-looking text) "
                    "plus random deep ones. Every string goes through with_template and template under catch_unwind (NoPanic); every well-formed one is drawn on a real "
                    "ProgressBar and the painted rows are compared with TemplateGrammar!Denote (WellFormedOk, RenderOK, Fidelity).",
                    ["cells and column widths of painted text are input facts from the harness tokeniser (tok.rs)",
                     "padding amount/side of a placeholder with a width, colours, trailing spaces of a row and trailing empty rows are unconstrained (C12 / not stated)",
                     "values of placeholders: {k} custom key = KV, pos 3, len 7, msg Mg, prefix Px; other built-in keys (bars, spinner, times, rates) belong to C11 / C13",
                     "tab characters inside literals are C16's business and are only used in the no-panic strings"],
                    need=("strings", "ok", "err", "wf", "rendered", "bigw", "multiline", "padded", "truncAlts", "backtracks", "soup"),
                    design={"models": "TemplateParser (implementation-shaped) vs TemplateGrammar (contract)",
                            "invariants": ["Total: no transition of the parser model reaches the panic pseudo-state (cover, all_classes)",
                                           "DesignOK: on every generated well-formed template the parser model yields the parts the grammar denotes (g_* families)"]})


# ----------------------------------------------------------------------------------------------
# C14

def c14(pid, tier, seed):
    q = tier == "quick"
    alltpl = {"S", "B", "W", "SB", "SBWM", "B0", "WW", "WnM", "MnW", "L", "E", "bad"}
    gens = [
        gen("calls3", "MC_Style", dict(D=3, FirstTpls=alltpl, Tpls={"WW", "S", "WnM"} if q else alltpl, Level=2)),
    ]
    if not q:
        gens.append(gen("calls4", "MC_Style", dict(D=4, FirstTpls={"SBWM", "WW", "SB", "B0"}, Tpls={"B0", "bad"}, Level=2)))
    gens.append(gen("calls_deep", "MC_Style", dict(D=7, FirstTpls=alltpl, Tpls=alltpl, Level=2), mode=("sim", 200 if q else 10000, 9)))
    return run_gens(pid, tier, seed, gens, "stylebuild", "Trace_Style",
                    "every sequence of up to D builder calls (with_template, template, tick_chars, tick_strings, progress_chars, with_key) over argument classes "
                    "(0-3 tick characters / strings, empty strings, multi-character clusters, 0-4 progress clusters of equal / unequal / zero width), cut where the contract "
                    "rejects; then four bars (terminal width 1 and 10, with and without length) drawn at tick 0, 1, n-2, n-1, n, n+1, position 0 / middle / end, "
                    "one bar on a terminal of 1000 columns (templates include fields of 257-600 columns), "
                    "finished and not, once on the steady-tick thread, a later call on the same bar, get_tick_str at 0, 1, n-2, n-1, n, 2^32, u64::MAX. "
                    "BuildRule: invalid arguments <=> the call panics; UseRule: nothing panics once built.",
                    ["cluster count / character count / column width of the argument tokens are facts of the alphabet in StyleBuilder.tla (ASCII, two CJK ideographs, "
                     "ZERO WIDTH SPACE, e + combining acute)",
                     "tick values beyond a few dozen are reached through the public ProgressStyle::get_tick_str (the tick counter of a bar can only be incremented)",
                     "all-zero-width progress clusters and a single two-character cluster may be accepted or rejected (the property does not say); if accepted they must render"],
                    need=("builds", "built", "rejected", "draws", "steadies", "laters", "tickstrs", "free"))


PROPS = {"C10": c10, "C14": c14}
