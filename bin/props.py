"""Per-property decision procedures (what bin/check runs)."""
import json
import os

import kf
import vlib
from vlib import log

# ----------------------------------------------------------------------------------------------
# Screen engine: MC_Screen (TLC) generates histories -> harness `api` replays them on the real
# library -> Trace_Screen (TLC) judges every record against the Screen contract.

ALL_BAR_OPS = {"tick", "inc", "set_message", "println", "suspend", "reset", "finish", "finish_with_message",
               "finish_and_clear", "abandon", "abandon_with_message", "finish_using_style", "force_draw",
               "set_style", "set_length", "drop", "iter"}


def fam(name, W=3, H=4, Multi=False, MaxBars=1, D=4, BarOps=("tick",), MpOps=(), MsgShapes=("a",), TextShapes=("T",),
        Tpls=("M",), Fins=("AndLeave",), Hz=0, DTs=(0,), Base=1, Align="top", M0="e", TabWs=(8,), Pre=0, Once=False, Tgt="auto", Faults=(), Cover=False, mode="bfs", shards=8, model="MC_Screen", extra=None, conf=None):
    return dict(name=name, mode=mode, shards=shards, model=model, extra=extra or {}, conf=conf,
                constants=dict(W=W, H=H, Multi=Multi, MaxBars=MaxBars, D=D, BarOps=set(BarOps), MpOps=set(MpOps),
                               MsgShapes=set(MsgShapes), TextShapes=set(TextShapes), Tpls=set(Tpls), Fins=set(Fins),
                               Hz=Hz, DTs=set(DTs), Base=Base, Align=Align, M0=M0, TabWs=set(TabWs), Pre=Pre, Once=Once, Tgt=Tgt, Faults=set(Faults), Cover=Cover))


def screen_check(pid, tier, seed, families, rules_note, need_paints=True, level="model_checking"):
    states = trans = 0
    all_fail = []
    nh = nrec = 0
    stats = {}
    samples = []
    per_family = []
    only = os.environ.get("VERIF_FAMILIES")      # development aid: run the families whose name matches (the evidence says so)
    if only:
        import re as _re
        families = [f for f in families if _re.search(only, f["name"])]
    for f in families:
        wd = vlib.workdir("%s_%s_gen" % (pid, f["name"]))
        model = f.get("model", "MC_Screen")
        if model == "MC_Single":
            # design level: the implementation-shaped draw path against the contract, and its transitions as histories
            consts = dict(f["constants"], **f.get("extra", {}))
            cfg = vlib.cfg_text(consts, invariants=["TypeOK", "ScreenMatches", "CursorMatches", "LlcOK"], spec="SSpec", view="SView")
        elif model == "MC_Multi":
            # design level: the implementation-shaped MultiState book-keeping against the contract
            consts = dict(f["constants"], **f.get("extra", {}))
            cfg = vlib.cfg_text(consts, invariants=["TypeOK", "ContractHolds"], spec="MSpec", view="MView")
        else:
            cfg = vlib.cfg_text(f["constants"], invariants=["TypeOK"], view="CoverView" if f["constants"].get("Cover") else None)
        mode = f["mode"]
        if mode == "bfs":
            out, dist, gen = vlib.run_tlc(model, cfg, wd, mode=mode, workers=4 if tier == "quick" else 8)
            hs = vlib.histories_from(out, lazy=True)
        else:
            outs, dist, gen = vlib.run_tlc_sims(model, cfg, wd, mode[1], mode[2], seed)
            hs = [h for o in outs for h in vlib.histories_from(o)]
        if not hs and model in ("MC_Single", "MC_Multi") and not f["constants"].get("Cover"):
            states += dist
            trans += gen
            per_family.append({"family": f["name"], "mode": "design-level invariants only", "histories": 0, "records": 0, "verdicts": 0,
                               "tlc_distinct_states": dist, "tlc_states_generated": gen})
            continue
        if not hs:
            raise vlib.ToolError("family %s generated no histories" % f["name"])
        states += dist
        trans += gen
        bad, st, total = vlib.replay_and_judge("%s_%s" % (pid, f["name"]), hs, "api", "Trace_Screen", shards=f["shards"], keep_traces=bool(f.get("conf")))
        conf = None
        if f.get("conf"):
            # trace validation of the implementation-shaped model: the recorded terminal calls of every history against MC_Multi / MC_Single
            cc = dict(f["constants"], MaxLog=2, TextOnlyNewline=True)
            if f["conf"] == "multi":
                cc.update(ZombieAccounting="repaired", Base=0)
            conf = vlib.conformance("%s_%s" % (pid, f["name"]), "Trace_MultiConf" if f["conf"] == "multi" else "Trace_SingleConf", cc)
        nh += len(hs)
        nrec += total
        for k, v in st.items():
            stats[k] = stats.get(k, 0) + v
        if len(samples) < 3:
            samples.append({"family": f["name"], "cfg": hs[len(hs) // 2]["cfg"], "ops": hs[len(hs) // 2]["ops"]})
        per_family.append({"family": f["name"], "mode": str(mode), "histories": len(hs), "records": total, "verdicts": len(bad),
                           "tlc_distinct_states": dist, "tlc_states_generated": gen})
        if conf is not None:
            per_family[-1]["model_conformance"] = conf
        byh = vlib.by_h(hs)
        for v in bad:
            h = byh(v["h"])
            prefix = h["ops"][:v["i"]]
            all_fail.append(dict(cls="%s/%s" % (v["rule"], v["op"]), rule=v["rule"], n=len(prefix),
                                 kf=kf.classify(h["cfg"], prefix, v),
                                 what="rule=%s op=%s family=%s step=%d" % (v["rule"], v["op"], f["name"], v["i"]),
                                 replay={"driver": "api", "monitor": "Trace_Screen", "rule": v["rule"], "expected_lines": ["".join(chr(c) if 32 <= c < 127 else "<%d>" % c for c in l) for l in v.get("exp", [])],
                                         "history": {"h": 1, "cfg": h["cfg"], "ops": prefix}}))
    # vacuity: the clauses must have been exercised
    if ((need_paints and stats.get("paints", 0) == 0) or stats.get("recs", 0) == 0) and not all_fail and not only:
        raise vlib.ToolError("vacuous run: no painted frame was validated")
    all_fail.sort(key=lambda x: x["n"])   # shortest witness first per class
    coverage = dict(states=states, transitions=trans, traces_validated_against_impl=nh, records_validated=nrec,
                    samples=samples, clause_counts=stats, families=per_family,
                    rule=rules_note, exhaustive=all(f["mode"] == "bfs" for f in families))
    if only:
        coverage["family_filter"] = only
    assumptions = [
        "terminal semantics = spec/Term.tla (bound to the vt100 emulator by the Term conformance check)",
        "glyph column widths are input facts from the harness tokeniser (tok.rs)",
        "templates restricted to the families of Screen!Tpl; texts to the shapes of MC_Screen!Shape",
        "position updates are spaced >= 1 ms in rendering histories (the position bucket is C05's business)",
    ]
    if level == "fault_enumeration":
        coverage["evaluations"] = nh
        coverage["distinct_nontrivial"] = stats.get("faulted", nh)
    return dict(level=level, coverage=coverage, assumptions=assumptions, failures=all_fail)


def add_final_state_clause(res, pid, tier, seed, families):
    """schedule clause shared by C01 / C02 / C16 (Linear.tla, Trace_Linear.tla): concurrent calls, final terminal and getters = those of some sequential order"""
    import props_sync
    fc = props_sync.final_state_clause(pid, tier, seed, families)
    cov = res["coverage"]
    cov["states"] += fc["states"]
    cov["transitions"] += fc["transitions"]
    cov["traces_validated_against_impl"] += fc["runs"]
    cov["records_validated"] += fc["records"]
    cov["final_state_clause"] = {"runs": fc["runs"], "clause_counts": fc["stats"], "sample": fc["sample"], "families": [list(f) for f in families],
                                 "rule": "MC_Linear programs (thread 0: 1-2 calls, thread 1: 1 call%s) x preemption-bounded schedules (k steps of one thread, j of the other, k, j <= K) under the "
                                         "controlled scheduler; Trace_Linear: final terminal and getters are those of some sequential order of the calls (Linear.tla)" % ("-2 calls" if tier != "quick" else "")}
    res["failures"] += fc["fails"]
    return res


def c01(pid, tier, seed):
    q = tier == "quick"
    fams = [
        fam("single_w3", conf="single", W=3, H=4, D=4 if q else 5, BarOps=("tick", "set_message", "println", "suspend", "finish", "finish_and_clear", "reset", "drop"),
            MsgShapes=("e", "a", "W", "W1", "nlA", "Anl"), TextShapes=("T", "TW1", "e"), Fins=("AndLeave", "AndClear")),
        fam("single_shapes", conf="single", W=4, H=3, D=3 if q else 4, BarOps=("set_message", "println", "finish_with_message", "tick"),
            MsgShapes=("e", "a", "Wm1", "W", "W1", "2W", "2W1", "nlA", "Anl", "AnlB", "AnnB", "nl", "sgr", "sA", "wide", "WnnA", "WnA", "2WnnA"),
            TextShapes=("T", "TW", "TW1", "T2W1", "TnlT", "TnnT", "e", "nl", "nlT", "Tnl", "TWnnT", "T2WnnT", "TWnT", "TWnTW"), Tpls=("M", "PnM", "MnC"), Base=0),
        # a log line that is taller than the whole terminal (its top scrolls away, nothing may be lost)
        fam("single_tall_log", conf="single", W=3, H=4, D=4 if q else 5, BarOps=("tick", "set_message", "println", "finish"), MsgShapes=("a", "W1"), TextShapes=("T", "T5W"), Fins=("AndLeave",)),
        # the same log text printed twice in a row with an unchanged frame in between
        fam("single_repeats", conf="single", W=4, H=8, D=4 if q else 5, BarOps=("println", "tick", "set_message", "finish_and_clear"), TextShapes=("same", "T"), MsgShapes=("a",), Fins=("AndLeave",)),
        fam("single_limited", conf="single", W=3, H=4, D=4 if q else 5, BarOps=("burst", "tick", "set_message", "println", "finish", "finish_and_clear", "drop"), Hz=20, DTs=(0, 50000),
            MsgShapes=("a", "W1", "nlA"), TextShapes=("T", "TW1")),
        # ProgressBar::new(len): the default target (stderr, 20 Hz) with file descriptor 2 on a pseudo-terminal
        fam("single_default_pty", W=6, H=5, D=3 if q else 4, BarOps=("tick", "set_message", "println", "finish", "finish_and_clear", "drop"),
            MsgShapes=("a", "W1"), TextShapes=("T", "TW1"), Fins=("AndLeave", "AndClear"), Tgt="default_pty", DTs=(0, 60000), M0="id"),
        fam("single_pty", W=6, H=5, D=4 if q else 5, BarOps=("tick", "set_message", "println", "finish", "finish_and_clear", "drop"),
            MsgShapes=("a", "W1", "nlA"), TextShapes=("T", "TW1"), Fins=("AndLeave", "AndClear"), Tgt="pty", DTs=(0, 5000), M0="id"),
        # ProgressBar::set_draw_target on a standalone bar: hidden <-> terminal; an abandoned frame stays on the terminal as text
        fam("single_retarget", W=6, H=8, D=5 if q else 6, BarOps=("tick", "set_message", "println", "set_target", "finish", "finish_and_clear"),
            MsgShapes=("a", "W1"), TextShapes=("T",), Tpls=("MnC",), Fins=("AndLeave",)),
        fam("design_single", W=3, H=4, D=7 if q else 8, BarOps=("tick", "set_message", "println", "suspend", "finish", "finish_and_clear", "reset", "drop"),
            MsgShapes=("e", "a", "W", "W1", "nlA", "Anl", "WnnA"), TextShapes=("T", "TW1", "e", "TWnnT"), Tpls=("M", "PnM"), Fins=("AndLeave", "AndClear"),
            model="MC_Single", extra=dict(MaxLog=2, TextOnlyNewline=True)),
        fam("design_single_cover", conf="single", W=4, H=3, D=4 if q else 6, BarOps=("tick", "set_message", "println", "suspend", "finish_with_message", "finish_and_clear", "drop"),
            MsgShapes=("e", "a", "W", "W1", "2W1", "nlA", "AnnB"), TextShapes=("T", "TW", "e", "TnnT"), Tpls=("M", "MnC"), Fins=("AndLeave", "AndClear"), Cover=True,
            model="MC_Single", extra=dict(MaxLog=2, TextOnlyNewline=True)),
        fam("single_deep", conf="single", W=5, H=6, D=30, BarOps=ALL_BAR_OPS - {"iter"}, MsgShapes=("e", "a", "W", "W1", "2W1", "nlA", "Anl", "AnnB", "sA", "wide"),
            TextShapes=("T", "TW", "TW1", "TnlT", "e"), Tpls=("M", "PM", "PnM", "MnC", "LM"), Fins=("AndLeave", "AndClear", "Abandon", "WithMessage"),
            DTs=(0, 1000), mode=("sim", 400 if q else 4000, 32)),
    ]
    res = screen_check(pid, tier, seed, fams,
                        "histories = every sequence of D operations over the family's alphabet (bfs) or random walks (sim) of MC_Screen; "
                        "each record is judged by Trace_Screen: ScreenOK/LogOK/CursorOK/QuietOK/ForcedOK/GetOK")
    # concurrent callers of one stand-alone bar (suspend closures, println, finish, reset against tick / inc / set_message from another thread)
    return add_final_state_clause(res, pid, tier, seed, [("single", 4, False), ("single_ticker", 4, False)] if q else [("single", 6, True), ("single_ticker", 8, False)])


def c02(pid, tier, seed):
    q = tier == "quick"
    fams = [
        fam("multi_order", conf="multi", W=4, H=8, Multi=True, MaxBars=3, D=5 if q else 6, BarOps=("tick", "mp_remove"), MpOps=("insert", "insert_rel"),
            Tpls=("M",), Fins=("AndLeave",), M0="id", shards=12),
        fam("multi_life", conf="multi", W=4, H=8, Multi=True, MaxBars=2, D=5 if q else 6, BarOps=("tick", "set_message", "finish", "finish_and_clear", "drop", "mp_remove"),
            MpOps=("mp_println", "mp_clear"), MsgShapes=("a", "W1"), TextShapes=("T",), Fins=("AndLeave", "AndClear"), M0="id", shards=12),
        # members unlinked by set_draw_target, removed and added again (MultiProgress::add of an existing bar moves it to the end)
        fam("multi_relink", conf="multi", W=6, H=10, Multi=True, MaxBars=3, Pre=2, D=6, BarOps=("tick", "set_target", "readd", "mp_remove", "finish", "drop") + (() if q else ("set_message",)),
            MpOps=("mp_println", "insert"), MsgShapes=("a", "W1"), TextShapes=("T",), Tpls=("M",), Fins=("AndLeave",), M0="idw", shards=12),
    ] + ([] if q else [
        fam("multi_zombie_orders", W=4, H=12, Multi=True, MaxBars=3, Pre=3, Once=True, D=11, BarOps=("finish", "drop"), MpOps=("mp_println",),
            TextShapes=("T",), Tpls=("M",), Fins=("AndLeave",), M0="id", shards=12)]) + [
        fam("design_multi", W=4, H=14, Multi=True, MaxBars=3, Pre=2, Once=True, D=7 if q else 8, BarOps=("tick", "finish", "drop", "println", "set_message"),
            MpOps=("mp_println", "mp_clear"), MsgShapes=("a", "W1"), TextShapes=("T",), Tpls=("M",), Fins=("AndLeave",), M0="id", Base=0,
            model="MC_Multi", extra=dict(MaxLog=2, TextOnlyNewline=True, ZombieAccounting="repaired")),
        # ... and with the rate limiter of the target in the model (time steps of 0 and 0.6 s at 2 Hz, bursts that empty the bucket):
        # refused requests, forced draws and the release of finished bars interleave
        fam("design_multi_limited", W=4, H=14, Multi=True, MaxBars=3, Pre=2, Once=True, D=7 if q else 9, BarOps=("burst", "tick", "finish", "drop", "println"),
            MpOps=("mp_println",), TextShapes=("T",), Tpls=("M",), Fins=("AndLeave",), M0="id", Base=0, Hz=2, DTs=(0, 600000),
            model="MC_Multi", extra=dict(MaxLog=2, TextOnlyNewline=True, ZombieAccounting="repaired")),
        fam("design_multi_relink", W=4, H=14, Multi=True, MaxBars=3, Pre=2, Once=True, D=6 if q else 7, BarOps=("tick", "finish", "drop", "set_target", "readd", "mp_remove"),
            MpOps=("mp_println",), MsgShapes=("a",), TextShapes=("T",), Tpls=("M",), Fins=("AndLeave",), M0="id", Base=0,
            model="MC_Multi", extra=dict(MaxLog=2, TextOnlyNewline=True, ZombieAccounting="repaired")),
        fam("multi_zombie_cover", conf="multi", W=4, H=14, Multi=True, MaxBars=4, Pre=3, Once=True, Cover=True, D=11 if q else 15, BarOps=("finish", "drop", "tick"), MpOps=(),
            Tpls=("M",), Fins=("AndLeave",), M0="id", shards=12),
        fam("multi_zombie_cover_wrapped", conf="multi", W=4, H=16, Multi=True, MaxBars=3, Pre=3, Once=True, Cover=True, D=9 if q else 11, BarOps=("finish", "drop", "tick", "mp_remove"), MpOps=(),
            Tpls=("M",), Fins=("AndLeave",), M0="idw", shards=12),
        # MultiProgress::new(): stderr on a pseudo-terminal
        fam("multi_default_pty", W=6, H=10, Multi=True, MaxBars=2, D=4, BarOps=("tick", "set_message", "println", "finish", "drop"),
            MpOps=("mp_println", "mp_clear", "mp_is_hidden"), MsgShapes=("a",), TextShapes=("T",), Fins=("AndLeave",), Tgt="default_pty", DTs=(0, 60000), M0="id", shards=12),
        fam("multi_pty", W=6, H=10, Multi=True, MaxBars=2, D=4 if q else 5, BarOps=("tick", "set_message", "println", "finish", "drop", "mp_remove"),
            MpOps=("mp_println", "mp_clear"), MsgShapes=("a", "W1"), TextShapes=("T",), Fins=("AndLeave",), Tgt="pty", DTs=(0, 5000), M0="id", shards=12),
        fam("multi_limited", conf="multi", W=4, H=12, Multi=True, MaxBars=2, D=5 if q else 6, BarOps=("burst", "set_message", "finish", "drop", "tick"), MpOps=(),
            MsgShapes=("a",), Tpls=("M",), Fins=("AndLeave",), Hz=2, DTs=(0,), M0="id", shards=12),
        fam("multi_deep", conf="multi", W=5, H=40, Multi=True, MaxBars=4, D=30, BarOps=ALL_BAR_OPS | {"mp_remove", "set_target", "readd"}, MpOps=("insert", "insert_rel", "mp_println", "mp_suspend", "mp_clear", "mp_set_alignment"),
            MsgShapes=("e", "a", "W", "W1", "nlA", "AnnB"), TextShapes=("T", "TW1", "TnlT", "e"), Tpls=("M", "PnM", "MnC"),
            Fins=("AndLeave", "AndClear", "Abandon", "WithMessage"), DTs=(0, 1000), M0="id", mode=("sim", 400 if q else 4000, 32), shards=12),
    ]
    res = screen_check(pid, tier, seed, fams,
                       "histories of MC_Screen over MultiProgress operations; judged by Trace_Screen (order, once, below the log, statics); "
                       "schedule clause: thread-choice sequences (Choices.tla) replayed under the controlled scheduler, frames judged by Trace_Sync!FramesOK")
    import props_sync
    sc = props_sync.c02_schedules(pid, tier, seed)
    cov = res["coverage"]
    cov["states"] += sc["states"]
    cov["transitions"] += sc["transitions"]
    cov["traces_validated_against_impl"] += sc["runs"]
    cov["records_validated"] += sc["records"]
    cov["schedule_clause"] = {"runs": sc["runs"], "clause_counts": sc["stats"], "sample": sc["sample"]}
    res["failures"] += sc["fails"]
    # suspend / println / finish of one thread against draws of another: the final screen is that of some sequential order
    return add_final_state_clause(res, pid, tier, seed, [("multi", 4, False), ("multi_ticker", 4, False)] if q else [("multi", 6, True), ("multi_ticker", 8, False)])


def c03(pid, tier, seed):
    q = tier == "quick"
    fams = [
        fam("log_single_limited", conf="single", W=4, H=6, D=4 if q else 5, BarOps=("burst", "tick", "println", "suspend", "set_message", "finish", "drop"),
            MsgShapes=("a", "W1", "nlA"), TextShapes=("T", "TW1", "TnlT", "e", "TWnnT"), Hz=1, DTs=(0,), Fins=("AndLeave", "AndClear")),
        fam("log_multi", conf="multi", W=4, H=12, Multi=True, MaxBars=2, D=4 if q else 5, BarOps=("tick", "finish", "drop", "println"),
            MpOps=("mp_println", "mp_suspend", "mp_clear"), TextShapes=("T", "TW1"), Fins=("AndLeave",), Tpls=("M", "MnC"), M0="id", shards=12),
        # log lines taller than the terminal, through a bar and through the MultiProgress
        fam("log_tall", conf="multi", W=3, H=4, Multi=True, MaxBars=2, Pre=1, D=4 if q else 5, BarOps=("tick", "println", "finish", "drop"), MpOps=("mp_println",), TextShapes=("T", "T5W"),
            Fins=("AndLeave",), Tpls=("M",), M0="id", shards=12),
        # the same text printed again and again (through the bar, with an unchanged frame in between), suspend through a member that
        # was finished and cleared
        fam("log_repeats", conf="single", W=4, H=8, D=4 if q else 5, BarOps=("println", "tick", "suspend", "finish_and_clear"), TextShapes=("same", "T"), MsgShapes=("a",), Fins=("AndLeave",)),
        fam("log_suspend_members", conf="multi", W=4, H=12, Multi=True, MaxBars=3, Pre=3, D=6 if q else 7, BarOps=("tick", "suspend", "finish_and_clear", "println"), MpOps=(),
            TextShapes=("same", "T"), Fins=("AndLeave",), Tpls=("M",), M0="id", shards=12),
        fam("log_multi_limited", conf="multi", W=4, H=12, Multi=True, MaxBars=3, D=14, BarOps=("burst", "tick", "finish", "drop", "println", "set_message"),
            MpOps=("mp_println", "mp_suspend"), MsgShapes=("a", "W1"), TextShapes=("T", "TW1", "TnlT"), Fins=("AndLeave", "AndClear"),
            Hz=1, DTs=(0, 1000000), M0="id", mode=("sim", 400 if q else 4000, 16), shards=12),
        fam("log_deep", conf="multi", W=5, H=40, Multi=True, MaxBars=4, D=30, BarOps=("tick", "set_message", "println", "suspend", "finish", "finish_and_clear", "abandon", "drop", "mp_remove", "reset"),
            MpOps=("insert_rel", "mp_println", "mp_suspend", "mp_clear"), MsgShapes=("e", "a", "W1", "nlA", "AnnB"), TextShapes=("T", "TW", "TW1", "T2W1", "TnlT", "TnnT", "e", "nl", "TWnnT", "TWnT"),
            Tpls=("M", "PnM", "MnC"), Fins=("AndLeave", "AndClear", "Abandon"), DTs=(0, 1000), M0="id", mode=("sim", 400 if q else 4000, 32), shards=12),
    ]
    res = screen_check(pid, tier, seed, fams,
                        "histories of MC_Screen interleaving println/suspend with bar life-cycles, with exhausted limiters; LogOK = every emitted line once, in order, above the region")
    # lines of suspend closures and println calls against draws from another thread (a scheduling point before every line of a closure)
    return add_final_state_clause(res, pid, tier, seed, [("single", 4, False), ("single_ticker", 4, False), ("multi", 4, False), ("multi_ticker", 4, False)] if q else [("single", 5, True), ("single_ticker", 8, False), ("multi", 5, True), ("multi_ticker", 8, False)])


def c04(pid, tier, seed):
    q = tier == "quick"
    finishes = ("finish", "finish_with_message", "finish_and_clear", "abandon", "abandon_with_message", "finish_using_style")
    fams = [
        fam("fin_single", conf="single", W=4, H=6, D=3 if q else 4, BarOps=finishes + ("burst", "set_message", "inc", "drop", "iter"), MsgShapes=("a", "W1", "e"),
            Tpls=("MnC",), Fins=("AndLeave", "AndClear", "Abandon", "WithMessage", "AbandonWithMessage"), Hz=20, DTs=(0,), M0="id"),
        # a finished bar whose style is changed (set_style does not redraw) and that is dropped then: the drop changes nothing on screen
        fam("fin_then_restyled", conf="single", W=6, H=6, D=4 if q else 5, BarOps=("finish", "abandon", "finish_with_message", "set_style", "drop", "tick"), MsgShapes=("a", "e"),
            Tpls=("MnC", "M"), Fins=("AndLeave",), M0="id"),
        fam("fin_multi_then_restyled", conf="multi", W=6, H=8, Multi=True, MaxBars=2, Pre=2, D=5 if q else 6, BarOps=("finish", "set_style", "drop", "tick"), MsgShapes=("a",),
            Tpls=("MnC", "M"), Fins=("AndLeave",), M0="id", shards=12),
        # a single terminal failure somewhere before the end: the terminal works again, so the final frame must still be painted
        fam("fin_after_transient_fault", W=6, H=6, D=4 if q else 5, BarOps=finishes + ("tick", "drop", "set_message"), MsgShapes=("a",), Tpls=("MnC",), Fins=("AndLeave", "AndClear"), Faults=(1, 2, 4), M0="id"),
        fam("fin_multi_after_transient_fault", W=6, H=8, Multi=True, MaxBars=2, Pre=2, D=5 if q else 6, BarOps=("finish", "finish_and_clear", "abandon", "tick", "drop"), MsgShapes=("a",), Tpls=("M",),
            Fins=("AndLeave",), Faults=(1, 3), M0="id", shards=12),
        fam("fin_single_unlimited", conf="single", W=4, H=6, D=3 if q else 4, BarOps=finishes + ("tick", "reset", "drop", "iter", "set_length", "set_position"), MsgShapes=("a",),
            Tpls=("MnC", "M"), Fins=("AndLeave", "AndClear", "Abandon", "WithMessage", "AbandonWithMessage"), M0="id"),
        fam("fin_multi_orders", conf="multi", W=4, H=12, Multi=True, MaxBars=3, D=6 if q else 7, BarOps=("finish", "drop"), MpOps=(), Tpls=("MC",), Fins=("AndLeave", "AndClear"),
            M0="id", shards=12),
        fam("handles", W=6, H=8, D=4 if q else 6, BarOps=("clone", "drop_one", "drop", "downgrade", "upgrade", "tick", "finish", "reset_elapsed", "is_hidden"),
            Tpls=("MnC",), Fins=("AndLeave", "AndClear"), DTs=(0, 1000), M0="id"),
        fam("fin_multi_wrapped", conf="multi", W=4, H=14, Multi=True, MaxBars=3, Pre=2, Once=True, Cover=True, D=9 if q else 11, BarOps=("finish", "drop", "tick"), MpOps=(),
            Tpls=("M",), Fins=("AndLeave",), M0="idw", shards=12),
        fam("fin_multi_limited", conf="multi", W=4, H=12, Multi=True, MaxBars=3, D=12, BarOps=finishes + ("burst", "inc", "drop", "iter"), MsgShapes=("a",), Tpls=("MnC",),
            Fins=("AndLeave", "AndClear", "Abandon", "WithMessage"), Hz=2, DTs=(0, 1000), M0="id", mode=("sim", 400 if q else 4000, 14), shards=12),
    ]
    return screen_check(pid, tier, seed, fams,
                        "every finish path and drop, after histories that exhaust both limiters (burst of 25 ticks at one instant), all finish/drop orders of up to 3 bars; "
                        "ForcedOK = the final frame is painted, ScreenOK = it shows the final state, GetOK = is_finished/position")


def c16(pid, tier, seed):
    q = tier == "quick"
    fams = [
        fam("tabs_single", conf="single", W=40, H=6, D=4 if q else 5, BarOps=("set_tab_width", "set_style", "set_message", "set_prefix", "finish_with_message", "tick"),
            MsgShapes=("tab", "tt", "a", "utab"), Tpls=("TM", "KM", "PM"), TabWs=(8, 0, 4), Fins=("AndLeave",)),
        # a tab between literal pieces that the parser produces separately (a brace that stands for itself)
        fam("tabs_brace_literals", conf="single", W=40, H=6, D=3 if q else 4, BarOps=("set_tab_width", "set_style", "restyle", "set_message", "tick"),
            MsgShapes=("tab", "a"), Tpls=("TB", "M"), TabWs=(8, 2), Fins=("AndLeave",)),
        fam("tabs_restyle", conf="single", W=40, H=6, D=4 if q else 5, BarOps=("set_tab_width", "restyle", "set_style", "set_message", "tick"),
            MsgShapes=("tab",), Tpls=("TM", "KC", "M"), TabWs=(8, 2), Fins=("AndLeave",)),
        # two literal parts with a tab each around a placeholder; a tab width larger than the terminal is wide (custom key, message, literal alike)
        fam("tabs_two_literals", conf="single", W=40, H=6, D=3 if q else 4, BarOps=("set_tab_width", "set_style", "set_message", "tick"), MsgShapes=("tab", "a"), Tpls=("TT", "TM"), TabWs=(8, 2), Fins=("AndLeave",)),
        fam("tabs_narrow", W=5, H=12, D=3 if q else 4, BarOps=("set_tab_width", "set_message", "tick"), MsgShapes=("tab", "a"), Tpls=("KM", "KC", "TM"), TabWs=(8,), Fins=("AndLeave",), Base=0),
        # the texts given to the builder before / after the tab width (with_message, with_prefix, with_tab_width, with_style in every order)
        fam("tabs_builder", conf="single", W=40, H=6, D=3 if q else 4, BarOps=("tick", "set_tab_width", "set_message", "finish_with_message"), MsgShapes=("tab",), Tpls=("PM", "TM"),
            TabWs=(8, 0, 1, 4), Fins=("AndLeave", "WithMessage"), M0="tab"),
        fam("tabs_multi", conf="multi", W=40, H=12, Multi=True, MaxBars=2, D=4 if q else 5, BarOps=("set_tab_width", "set_style", "copy_style", "set_message", "abandon_with_message", "tick"),
            MsgShapes=("tab",), Tpls=("TM", "KM"), TabWs=(8, 1), Fins=("AndLeave",), shards=12),
    ]
    res = screen_check(pid, tier, seed, fams,
                        "every order of set_tab_width/with_tab_width, set_style/with_style, set_message/set_prefix/finish_with_message over tab widths {0,1,4,8}; "
                        "NoTab = no TAB cell reaches the terminal, ScreenOK = each tab is tab-width spaces, GetOK = message()/prefix() are expanded")
    # the same calls issued from two threads: whatever the interleaving, the texts end up expanded with the tab width in force at the end
    return add_final_state_clause(res, pid, tier, seed, [("tabs", 5, False)] if q else [("tabs", 8, True)])


def c19(pid, tier, seed):
    q = tier == "quick"
    fams = []
    for (w, h) in ([(1, 1), (1, 3), (2, 2), (3, 2), (3, 3)] if q else [(w, h) for w in (1, 2, 3, 4) for h in (1, 2, 3, 4)]):
        fams.append(fam("geo_single_%dx%d" % (w, h), conf="single", W=w, H=h, D=3, BarOps=("set_message", "println", "tick", "finish_and_clear"),
                        MsgShapes=("e", "a", "Wm1", "W", "W1", "2W", "2W1", "3W", "AnlB"), TextShapes=("T", "TW", "TW1", "T2W1"), Base=0, shards=4))
    # 2-column glyphs on even widths (no glyph straddles the right edge): rows follow the columns, not the number of characters
    fams.append(fam("geo_wide_glyphs", conf="single", W=4, H=5, D=4, BarOps=("set_message", "println", "tick", "finish_and_clear"), MsgShapes=("wide3", "wide", "a"), TextShapes=("T",),
                    Tpls=("M", "MnC"), Base=0))
    # a line that fills its rows exactly, directly followed by an empty line (in the message, in a log text): the empty line has a row of its own
    fams.append(fam("geo_full_then_empty", conf="single", W=3, H=8, D=4, BarOps=("set_message", "println", "tick", "finish_and_clear"), MsgShapes=("WnnA", "2WnnA", "a", "W"),
                    TextShapes=("T", "TWnnT"), Tpls=("M", "MnC"), Base=0))
    # finished bars that are dropped (kept as static text, released from the head) on terminals as tall as one or two bars: what is omitted appears as soon as there is room
    for (w, h) in ([(3, 1), (3, 2)] if q else [(3, 1), (3, 2), (2, 3), (4, 2)]):
        fams.append(fam("geo_multi_zombies_%dx%d" % (w, h), W=w, H=h, Multi=True, MaxBars=3, Pre=3, D=7 if q else 8, BarOps=("finish", "drop", "tick", "mp_remove"), MpOps=(), Once=True,
                        MsgShapes=("a",), Tpls=("M",), Fins=("AndLeave",), M0="id", Base=0, shards=12))
    # a field padded with blanks beyond the terminal width: the blanks wrap and count like any other column
    fams.append(fam("geo_padded", conf="single", W=3, H=6, D=4, BarOps=("set_message", "println", "tick", "finish_and_clear"), MsgShapes=("a", "W", "e"), TextShapes=("T",),
                    Tpls=("MP",), Base=0))
    fams.append(fam("geo_multi", conf="multi", W=2, H=3, Multi=True, MaxBars=5, D=5 if q else 7, BarOps=("tick", "finish_and_clear", "mp_remove"), MpOps=("mp_println",),
                    TextShapes=("T",), Tpls=("M",), Fins=("AndLeave",), M0="id", shards=12))
    # set_move_cursor(true): no line is cleared, the frame is overwritten in place; with frames that keep their shape (here: wrapped lines of
    # constant width, only a digit changes) the screen must still be exactly the frame
    fams.append(fam("geo_move_cursor", conf="multi", W=4, H=10, Multi=True, MaxBars=2, Pre=2, D=7 if q else 9, BarOps=("tick", "inc"), MpOps=("mp_set_move_cursor",),
                    Tpls=("MC",), Fins=("AndLeave",), M0="idw", DTs=(1000,), shards=8))
    fams.append(fam("geo_multi_deep", conf="multi", W=3, H=4, Multi=True, MaxBars=6, D=24, BarOps=("tick", "set_message", "finish_and_clear", "mp_remove", "drop"), MpOps=("mp_println", "insert_rel"),
                    MsgShapes=("a", "W", "W1", "2W1"), TextShapes=("T", "TW1"), Tpls=("M",), Fins=("AndLeave", "AndClear"), M0="id", mode=("sim", 400 if q else 4000, 26), shards=12))
    return screen_check(pid, tier, seed, fams,
                        "terminal sizes from 1x1, line widths around multiples of the width, bar sets growing and shrinking past the terminal height; "
                        "ScreenOK compares scrollback+viewport with the lines wrapped by the terminal rule and the leading bar lines that fit (Cut)")


def c06(pid, tier, seed):
    q = tier == "quick"
    ops = ("tick", "inc", "set_message", "set_prefix", "set_length", "println", "finish", "finish_with_message", "finish_and_clear", "abandon",
           "reset", "force_draw", "set_tab_width", "set_style", "drop", "iter", "is_hidden", "seek_to")
    fams = [
        fam("hidden_target", W=10, H=5, D=4 if q else 5, BarOps=ops, MsgShapes=("a", "tab"), TextShapes=("T",), Tpls=("MnC",), Fins=("AndLeave", "AndClear"), Tgt="hidden"),
        # a bar born hidden, shown later with set_draw_target and hidden again: silent exactly while hidden
        fam("hidden_then_shown", W=6, H=8, D=5 if q else 6, BarOps=("tick", "inc", "set_message", "println", "set_target", "finish", "reset"), MsgShapes=("a", "W1"), TextShapes=("T",),
            Tpls=("MnC",), Fins=("AndLeave",), Tgt="hidden"),
        fam("not_a_tty", W=10, H=5, D=4 if q else 5, BarOps=ops, MsgShapes=("a",), TextShapes=("T",), Tpls=("MnC",), Fins=("AndLeave", "WithMessage"), Tgt="pipe"),
        # the process's own streams when they are not a terminal (file descriptors 1 and 2 replaced by a pipe in the replaying child): the target that
        # ProgressBar::new / new_spinner / no_length pick themselves, ProgressDrawTarget::stderr() and stdout()
        fam("std_default_pipe", W=10, H=5, D=3 if q else 4, BarOps=ops, MsgShapes=("a",), TextShapes=("T",), Tpls=("MnC",), Fins=("AndLeave", "AndClear"), Tgt="default_pipe"),
        fam("std_stdout_pipe", W=10, H=5, D=3 if q else 4, BarOps=ops, MsgShapes=("a",), TextShapes=("T",), Tpls=("MnC",), Fins=("AndLeave",), Tgt="stdout_pipe"),
        fam("std_stderr_hz_pipe", W=10, H=5, D=3 if q else 4, BarOps=ops, MsgShapes=("a",), TextShapes=("T",), Tpls=("MnC",), Fins=("AndLeave",), Tgt="stderr_pipe", Hz=5, DTs=(0, 300000)),
        fam("hidden_multi", W=10, H=5, Multi=True, MaxBars=2, D=4, BarOps=(tuple(o for o in ops if o not in ("set_tab_width", "set_style", "iter", "is_hidden", "abandon", "set_prefix")) if q else ops) + ("mp_remove", "readd"), MpOps=("mp_println", "mp_clear", "mp_suspend", "insert"),
            MsgShapes=("a",), TextShapes=("T",), Tpls=("MnC",), Fins=("AndLeave", "AndClear"), Tgt="hidden", M0="id", shards=12),
    ] + ([] if q else [
        # depth 5 of the full alphabet is ~40M records (measured: 325k histories for this one); the deep family keeps the calls that change what a hidden member holds
        fam("hidden_multi_deep", W=10, H=5, Multi=True, MaxBars=2, D=5, BarOps=("inc", "set_message", "println", "finish", "finish_and_clear", "reset", "drop", "mp_remove"),
            MpOps=("mp_println", "mp_clear", "insert"), MsgShapes=("a",), TextShapes=("T",), Tpls=("MnC",), Fins=("AndLeave",), Tgt="hidden", M0="id", shards=12),
    ]) + [
        fam("not_a_tty_multi", W=10, H=5, Multi=True, MaxBars=2, D=4, BarOps=("tick", "set_message", "println", "finish", "drop"), MpOps=("mp_println", "mp_clear"),
            MsgShapes=("a",), TextShapes=("T",), Tpls=("MnC",), Fins=("AndLeave",), Tgt="pipe", M0="id", shards=12),
        # MultiProgress::new() when stderr is not a terminal
        fam("std_default_pipe_multi", W=10, H=5, Multi=True, MaxBars=2, D=4, BarOps=("tick", "inc", "set_message", "println", "finish", "finish_and_clear", "drop", "mp_remove"), MpOps=("mp_println", "mp_clear", "mp_suspend", "mp_is_hidden"),
            MsgShapes=("a",), TextShapes=("T",), Tpls=("MnC",), Fins=("AndLeave",), Tgt="default_pipe", M0="id", shards=12),
        # MultiProgress::set_draw_target: a MultiProgress born hidden, shown later, hidden again (what it showed stays as text); silent exactly while hidden
        fam("hidden_multi_then_shown", W=6, H=12, Multi=True, MaxBars=2, D=5 if q else 6, BarOps=("tick", "inc", "set_message", "finish", "drop"), MpOps=("mp_set_target", "mp_println", "mp_is_hidden"),
            MsgShapes=("a", "W1"), TextShapes=("T",), Tpls=("MnC",), Fins=("AndLeave",), Tgt="hidden", M0="id", shards=12),
        fam("shown_multi_then_hidden", W=6, H=12, Multi=True, MaxBars=2, Pre=2, D=5 if q else 6, BarOps=("tick", "set_message", "println", "finish", "drop", "is_hidden"), MpOps=("mp_set_target", "mp_println", "mp_clear"),
            MsgShapes=("a",), TextShapes=("T",), Tpls=("MnC",), Fins=("AndLeave",), M0="id", shards=12),
        # a member of the visible MultiProgress added to another MultiProgress whose target is hidden: silent from then on, the first one repaints without it
        fam("moved_to_hidden_multi", W=10, H=8, Multi=True, MaxBars=2, Pre=2, D=5 if q else 6, BarOps=("tick", "inc", "set_message", "println", "finish", "drop", "to_hidden_mp"),
            MpOps=("mp_println",), MsgShapes=("a",), TextShapes=("T",), Tpls=("MnC",), Fins=("AndLeave",), M0="id", shards=12),
        fam("removed_member", W=10, H=8, Multi=True, MaxBars=2, Pre=2, D=5 if q else 7, BarOps=("tick", "inc", "set_message", "println", "finish", "finish_and_clear", "drop", "mp_remove"),
            MpOps=(), MsgShapes=("a",), TextShapes=("T",), Tpls=("MnC",), Fins=("AndLeave",), M0="id", shards=12),
    ]
    return screen_check(pid, tier, seed, fams,
                        "every history of the family alphabets on the four ways of being hidden; SilentOK = no TermLike output call and no byte on the pipe for any call, "
                        "GetOK = position/length/message/prefix/is_finished equal the contract's logical state (the same one a visible bar is held to)",
                        need_paints=False)


def c18(pid, tier, seed):
    q = tier == "quick"
    fams = [
        fam("faults_single", W=6, H=5, D=4 if q else 5, BarOps=("tick", "set_message", "println", "suspend", "finish", "finish_and_clear", "set_tab_width", "reset", "drop", "inc"),
            MsgShapes=("a", "W1"), TextShapes=("T",), Tpls=("MnC",), Fins=("AndLeave",), Faults=(1, 2, 3, 5, 8), M0="id"),
        fam("faults_multi", W=6, H=8, Multi=True, MaxBars=2, Pre=2, D=5 if q else 6, BarOps=("tick", "set_message", "println", "suspend", "finish", "drop", "set_tab_width"),
            MpOps=("mp_println", "mp_clear", "mp_suspend"), MsgShapes=("a",), TextShapes=("T",), Tpls=("M",), Fins=("AndLeave",), Faults=(1, 2, 4, 7), M0="id", shards=12),
        # faults while a member is unlinked / moved (set_draw_target, add of an existing member, remove: each repaints the MultiProgress)
        fam("faults_multi_relink", W=6, H=8, Multi=True, MaxBars=2, Pre=2, D=5 if q else 6, BarOps=("tick", "set_target", "readd", "mp_remove", "finish", "drop"),
            MpOps=("mp_println",), TextShapes=("T",), Tpls=("M",), Fins=("AndLeave",), Faults=(1, 2, 3, 5), M0="id", shards=12),
        # a failure during a paint requested through a member, then another member placed relative to it (insert_before / insert_after look the anchor up)
        fam("faults_multi_insert", W=6, H=8, Multi=True, MaxBars=3, Pre=2, D=5 if q else 6, BarOps=("tick", "set_message", "finish"), MpOps=("insert_rel", "mp_println"),
            MsgShapes=("a",), TextShapes=("T",), Tpls=("M",), Fins=("AndLeave",), Faults=(1, 2, 3), M0="id", shards=12),
        # a terminal that keeps failing under eighty forced draws in a row
        fam("faults_forced_many", W=6, H=5, D=3, BarOps=("fburst", "tick", "finish", "set_message"), MsgShapes=("a",), Tpls=("M",), Fins=("AndLeave",), Faults=(1, 2), M0="id"),
        # bottom alignment: the filler lines written when the region shrinks are terminal operations like any other
        fam("faults_multi_bottom", W=6, H=8, Multi=True, MaxBars=2, Pre=2, D=5 if q else 6, BarOps=("tick", "finish_and_clear", "mp_remove", "drop"),
            MpOps=("mp_println", "mp_clear"), TextShapes=("T",), Tpls=("M",), Fins=("AndClear",), Faults=(1, 2, 3, 4, 5, 6, 7, 8), M0="id", Align="bottom", shards=12),
        # ... including the filler lines under a frame that has no bar line left (one bar whose frame wrapped to two rows, cleared)
        fam("faults_bottom_wrapped", W=6, H=8, Multi=True, MaxBars=1, Pre=1, D=6 if q else 7, BarOps=("tick", "finish_and_clear", "drop"),
            MpOps=("mp_println", "mp_clear"), TextShapes=("T",), Tpls=("M",), Fins=("AndClear",), Faults=(1, 2, 3, 4, 5, 6, 7, 8, 9, 10), M0="idw", Align="bottom", shards=12),
        fam("faults_multi_zombies", W=6, H=8, Multi=True, MaxBars=2, Pre=2, Once=True, D=6 if q else 7, BarOps=("println", "finish", "drop"),
            MpOps=("mp_println", "mp_clear"), TextShapes=("T",), Tpls=("M",), Fins=("AndLeave",), Faults=(1, 2, 4), M0="id", shards=12),
    ]
    return screen_check(pid, tier, seed, fams,
                        "fault enumeration: every history of the family x every k in Faults x {once, sticky}: the k-th terminal call after the fail_at point returns an io::Error; "
                        "NoPanic, GetOK (logical state as without the fault, later calls on the same and sibling bars work), ErrReported (MultiProgress::println/clear return Err)",
                        need_paints=False, level="fault_enumeration")


def generic_check(pid, tier, seed, gens, driver, monitor, note, assumptions, level="model_checking", harness_extra=(), kf_fn=None, shards=8):
    """gens: list of (name, model, constants, mode). Histories from TLC -> harness driver -> TLC monitor."""
    states = trans = nh = nrec = 0
    stats, samples, fams, fails = {}, [], [], []
    for (name, model, constants, mode) in gens:
        wd = vlib.workdir("%s_%s_gen" % (pid, name))
        cfg = vlib.cfg_text(constants, invariants=["TypeOK"])
        if mode == "bfs":
            out, dist, gen = vlib.run_tlc(model, cfg, wd, workers=4 if tier == "quick" else 8)
            hs = vlib.histories_from(out, lazy=True)
        else:
            outs, dist, gen = vlib.run_tlc_sims(model, cfg, wd, mode[1], mode[2], seed)
            hs = [h for o in outs for h in vlib.histories_from(o)]
        if not hs:
            raise vlib.ToolError("%s generated no behaviours" % name)
        states += dist
        trans += gen
        bad, st, total = vlib.replay_and_judge("%s_%s" % (pid, name), hs, driver, monitor, shards=shards, harness_extra=harness_extra)
        nh += len(hs)
        nrec += total
        for k, v in st.items():
            stats[k] = stats.get(k, 0) + v
        if len(samples) < 3:
            samples.append({"family": name, "behaviour": hs[len(hs) // 2]})
        fams.append({"family": name, "mode": str(mode), "behaviours": len(hs), "records": total, "verdicts": len(bad), "tlc_distinct_states": dist, "tlc_states_generated": gen})
        byh = vlib.by_h(hs)
        for v in bad:
            h = byh(v["h"])
            prefix = h.get("ops", [])[:v["i"]] if "ops" in h else None
            rep = dict(h)
            if prefix is not None:
                rep["ops"] = prefix
            rep["h"] = 1
            fails.append(dict(cls="%s/%s" % (v["rule"], v.get("op", "")), rule=v["rule"], n=v["i"],
                              kf=(kf_fn(h, v) if kf_fn else []),
                              what="rule=%s op=%s family=%s step=%s" % (v["rule"], v.get("op", ""), name, v["i"]),
                              replay={"driver": driver, "monitor": monitor, "rule": v["rule"], "verdict": v, "history": rep}))
    if stats.get("recs", 0) == 0:
        raise vlib.ToolError("vacuous run: nothing validated")
    fails.sort(key=lambda x: x["n"])
    coverage = dict(states=states, transitions=trans, traces_validated_against_impl=nh, records_validated=nrec, samples=samples,
                    clause_counts=stats, families=fams, rule=note, exhaustive=all(g[3] == "bfs" for g in gens))
    if level != "model_checking":
        coverage["evaluations"] = nh
        coverage["distinct_nontrivial"] = nh
    return dict(level=level, coverage=coverage, assumptions=assumptions, failures=fails)


def c09(pid, tier, seed):
    q = tier == "quick"
    allgaps = {1, 7, 1000, 15000, 3600000, 259200000}
    gens = [("steady_e3", "MC_Estimator", dict(D=3 if q else 4, Mode="steady", GapMs=allgaps, StepSet={"1"}, RatePerMs=1, BigStart=False, NearEnd=False), "bfs"),
            ("steady_e6", "MC_Estimator", dict(D=3 if q else 4, Mode="steady", GapMs=allgaps, StepSet={"1"}, RatePerMs=1000, BigStart=False, NearEnd=False), "bfs"),
            ("steady_big", "MC_Estimator", dict(D=3 if q else 4, Mode="steady", GapMs={1, 7, 1000, 15000}, StepSet={"1"}, RatePerMs=1, BigStart=True, NearEnd=False), "bfs"),
            ("steady_nearend", "MC_Estimator", dict(D=3, Mode="steady", GapMs={1, 7, 1000}, StepSet={"1"}, RatePerMs=1, BigStart=False, NearEnd=True), "bfs"),
            ("free", "MC_Estimator", dict(D=3 if q else 4, Mode="free", GapMs={1, 1000, 15000, 259200000}, StepSet={"1", "e6", "e9"}, RatePerMs=1, BigStart=False, NearEnd=False), "bfs"),
            ("free_deep", "MC_Estimator", dict(D=14, Mode="free", GapMs=allgaps, StepSet={"1", "e3", "e6", "e9"}, RatePerMs=1, BigStart=False, NearEnd=False), ("sim", 400 if q else 4000, 16))]
    return generic_check(pid, tier, seed, gens, "est", "Trace_Estimator",
                         "timed histories of updates (gaps 1 ms .. 3 days, steps 1 .. 10^9), stalls, reset_eta/reset/backwards seeks, finish, unset_length with a query after every step; "
                         "laws: finite and non-negative, steady rate exact (1e-6), upper bound by the largest segment rate, monotone decay while stalled and below 1e-6 of the peak after ten minutes, "
                         "forgetfulness against a fresh twin, eta = remaining/rate (0 when finished / no length / no progress), duration = elapsed + eta",
                         ["f64 getters are logged as 16 significant decimal digits and an exponent; comparisons are exact on naturals with tolerance 1e-6 relative",
                          "the exponential weighting itself is not modelled (TLC has no reals); only the laws the property states are checked",
                          "queries are placed strictly after creation / reset / backwards seek, and updates are at least 1 ms apart"],
                         shards=12, kf_fn=lambda h, v: ["KF-D22"] if v["rule"] == "DecayMonotoneLag" else [])


def c07(pid, tier, seed):
    q = tier == "quick"
    gens = [("u64_visible", "MC_Logical", dict(D=3 if q else 4, Target="spy"), "bfs"),
            ("u64_hidden", "MC_Logical", dict(D=3, Target="hidden"), "bfs"),
            ("u64_deep", "MC_Logical", dict(D=12, Target="spy"), ("sim", 400 if q else 4000, 14))]
    res = generic_check(pid, tier, seed, gens, "api", "Trace_Logical",
                         "every sequence of D operations over inc/dec/set_position/update/set_length/inc_length/dec_length/unset_length/reset/finish/abandon with arguments from "
                         "{0,1,2,2^32,2^63,MAX-1,MAX}; position()/length()/is_finished()/fraction()/rendered {pos} {len} {percent} checked after every call on exact u64 arithmetic (U64.tla)",
                         ["u64 values are exchanged as five base-2^15 limbs; fraction() is read through ProgressBar::update and scaled by 2^30",
                          "concurrent clause: every sequence of 8 thread choices (Choices.tla) at atomic load/store/rmw granularity under the controlled scheduler (hooks); "
                          "2-3 threads x 1-2 inc/dec calls on clones"],
                         shards=12)
    import props_sync
    sc = props_sync.c07_schedules(pid, tier, seed)
    cov = res["coverage"]
    cov["states"] += sc["states"]
    cov["transitions"] += sc["transitions"]
    cov["traces_validated_against_impl"] += sc["runs"]
    cov["records_validated"] += sc["records"]
    cov["schedule_clause"] = {"runs": sc["runs"], "clause_counts": sc["stats"], "sample": sc["sample"]}
    res["failures"] += sc["fails"]
    return res


def maximal(seqs):
    """drop sequences that are a proper prefix of another one (the monitor judges every prefix anyway)"""
    ss = sorted(set(tuple(x) for x in seqs))
    out = []
    for k, x in enumerate(ss):
        if k + 1 < len(ss) and ss[k + 1][:len(x)] == x:
            continue
        out.append(list(x))
    return out


def c05(pid, tier, seed):
    q = tier == "quick"
    gaps = {0, 1, 2000, 3999, 4000, 4001, 8000, 80000, 84000, 4000000}
    states = trans = 0
    fams, fails, samples, stats = [], [], [], {}
    nh = nrec = 0

    def gen(B, D, mode, name, churn=False, gaps=gaps):
        nonlocal states, trans
        wd = vlib.workdir("%s_gen_%s" % (pid, name))
        consts = dict(I=4000, B=B, D=D, Gaps=gaps, Churn=churn)
        if mode == "bfs":
            cfg = vlib.cfg_text(consts, invariants=["TypeOK", "CapOK"], view="ViewImpl")
            out, dist, g = vlib.run_tlc("Limiter", cfg, wd, workers=4)
            seqs = [h["gaps"] for h in vlib.histories_from(out)]
        else:
            cfg = vlib.cfg_text(consts, invariants=["TypeOK", "CapOK"])
            outs, dist, g = vlib.run_tlc_sims("Limiter", cfg, wd, mode[1], mode[2], seed)
            seqs = [h["gaps"] for o in outs for h in vlib.histories_from(o)]
        states += dist
        trans += g
        return maximal(seqs)

    # design level: the interval form of the laws on the bucket algorithm, exhaustively for a small burst
    wd = vlib.workdir("%s_design" % pid)
    out, dist, g = vlib.run_tlc("Limiter", vlib.cfg_text(dict(I=4000, B=3, D=14, Gaps=gaps, Churn=False), invariants=["TypeOK", "CapOK", "WindowI", "FreshI"], view="View"), wd, workers=4)
    states += dist
    trans += g
    design = {"model": "Limiter (I=4000, B=3, depth 14)", "distinct_states": dist, "invariants": ["WindowI", "FreshI", "CapOK"]}
    # the same with forced draws between the requests (they bypass the bucket and are not counted)
    wdc = vlib.workdir("%s_design_forced" % pid)
    outc, distc, gc = vlib.run_tlc("Limiter", vlib.cfg_text(dict(I=4000, B=3, D=10, Gaps={0, 1, 3999, 4000, 4001, 8000}, Churn=True), invariants=["TypeOK", "CapOK", "WindowI", "FreshI"], view="View"), wdc, workers=4)
    states += distc
    trans += gc
    design["with_forced_draws"] = {"model": "Limiter (I=4000, B=3, depth 10, Churn)", "distinct_states": distc}
    # unbounded time, real burst: Apalache discharges the inductive invariant of LimiterInd.tla (same Request as Limiter.tla, I=4000, B=20, any gaps)
    wda = vlib.workdir("%s_apalache" % pid)
    steps = [("Init", "IndInv", 0), ("IndInit", "IndInv", 1), ("IndInit", "WindowI", 0)]
    oks = [vlib.run_apalache("LimiterInd", i, v, n, wda) for (i, v, n) in steps]
    if not all(oks):
        raise vlib.ToolError("Apalache could not discharge the inductive window invariant of LimiterInd.tla: %s" % list(zip(steps, oks)))
    design["apalache_inductive"] = {"spec": "LimiterInd.tla", "obligations": ["Init => IndInv", "IndInv /\\ Next => IndInv'", "IndInv => WindowI"], "discharged": 3,
                                    "scope": "I=4000, B=20, arbitrary gaps, unbounded time"}

    def lift(seq, extra):
        """B=3 behaviour -> analogue for a larger burst: every bucket-draining run of zero gaps gets `extra` more requests"""
        out, k = [], 0
        for g in list(seq) + [None]:
            if g == 0:
                k += 1
                continue
            if k:
                out += [0] * (k + (extra if k >= 2 else 0))
                k = 0
            if g is not None:
                out.append(g)
        return out
    # every sequence of 5 (6) gaps around the interval, without state-based pruning, so that timing distinctions the
    # reference algorithm does not make (but a changed one might) are kept
    wd2 = vlib.workdir("%s_allseq" % pid)
    out2, d2, g2 = vlib.run_tlc("Limiter", vlib.cfg_text(dict(I=4000, B=3, D=5 if q else 6, Gaps={0, 1, 3999, 4000, 4001, 8000}, Churn=False), invariants=["TypeOK", "WindowI", "FreshI"]), wd2, workers=4)
    states += d2
    trans += g2
    small = maximal([h["gaps"] for h in vlib.histories_from(out)] + [h["gaps"] for h in vlib.histories_from(out2)])
    lifted20 = [lift(s, 17) for s in small]
    lifted10 = [lift(s, 7) for s in small]

    cover20 = gen(20, 45, "bfs", "cover20")
    cover10 = gen(10, 30, "bfs", "cover10")
    deep20 = gen(20, 120 if q else 700, ("sim", 24 if q else 200, (120 if q else 700) + 2), "deep20")
    steady = [[2000] * (700 if q else 2000), [4000] * 300, [1] * 400]
    churn20 = [s for s in gen(20, 48, "bfs", "churn20", churn=True, gaps={0, 1, 3999, 4000, 4001}) if any(g < 0 for g in s)]
    churn20 = churn20 if not q else churn20[::3]
    churn20.append([0] * 25 + [-1, 0, 0] * 30)     # a job that keeps creating and dropping short-lived bars while the bucket is empty

    def hist(seq, R, kind, lit, length=1000000, samepos=False):
        if kind == "pos":
            sub = 250                                    # 1 ms / 4000
        elif lit:
            sub = 1000000000 // (R * 4000)               # clustered around the literal interval 1/R
        else:
            sub = (1000 // R) * 250                      # clustered around the interval the code uses
        ops = []
        cfg = {"w": 20, "h": 5, "base": 0, "x": {"R": 1000 if kind == "pos" else R, "B": 10 if kind == "pos" else 20}}
        new = {"op": "new", "b": 1, "len": length, "tpl": "P", "fin": "AndLeave", "fm": [], "m0": [], "p0": [], "pos0": 0, "tabw": 8, "hz": R, "dt": 0}
        if kind == "single":
            ops.append(dict(new, target="spy_hz"))
        elif kind == "pty":
            ops.append(dict(new, target="pty"))
        elif kind == "pos":
            ops.append(dict(new, target="spy"))
        elif kind == "multi_late":
            # a MultiProgress born hidden gets its members first and its (rate limited) terminal afterwards
            cfg["mp"] = {"target": "hidden", "hz": 0, "align": "top"}
            ops.append(dict(new, op="add", target="spy"))
            ops.append({"op": "mp_set_target", "b": 0, "target": "spy_hz", "hz": R, "dt": 0})
        else:
            cfg["mp"] = {"target": "spy_hz", "hz": R, "align": "top"}
            ops.append(dict(new, op="add", target="spy"))
        nb = 1
        for g in seq:
            ns = (g if g >= 0 else -g - 1) * sub
            tm = {"dts": ns // 1000000000, "dt": (ns % 1000000000) // 1000, "dtn": ns % 1000}
            if g < 0:
                # forced draws: two short-lived members above the worker, dropped bottom-up; the drop of an unfinished bar finishes it (a forced
                # draw), the lower one is only flagged and waits at the head of the list, to be released by the next draw
                short = dict(new, tpl="M", fin="AndClear", len=3, m0=[120], target="spy")
                ops.append(dict(short, op="insert", b=nb + 1, idx=0, b2=0, **tm))
                ops.append(dict(short, op="insert", b=nb + 2, idx=1, b2=0))
                ops.append({"op": "drop", "b": nb + 2, "dt": 0})
                ops.append({"op": "drop", "b": nb + 1, "dt": 0})
                nb += 2
            elif samepos and len(ops) % 3 == 2:
                # a request that sets the position to the value it already has is a redraw request like any other
                ops.append(dict({"op": "set_position", "b": 1, "n": 0}, **tm))
            else:
                ops.append(dict({"op": "inc" if kind == "pos" else "tick", "b": 1, "n": 1}, **tm))
        return {"cfg": cfg, "ops": ops}

    # thorough: every rate costs about five minutes of monitor time, so a spread of rates instead of all 255 (the interval arithmetic has the
    # same shape for all of them: ceil(10^9 / R) ns; the spread has exact and inexact divisions, the extremes and the neighbours of 250)
    rates = [1, 20, 60, 250, 255] if q else [1, 2, 3, 7, 10, 16, 20, 24, 30, 50, 60, 64, 100, 120, 125, 128, 144, 200, 240, 249, 250, 251, 254, 255]
    plan = []
    deep_rates = {1, 3, 20, 60, 250, 255}
    for R in rates:
        sel = cover20 if (q and R in (20, 255)) or not q else cover20[::7]
        lift = lifted20 if R == 20 else (lifted20[::2] if R == 250 else (lifted20[::4] if q else lifted20[::16]))
        deep = deep20 + steady if (R in (20, 255) or (not q and R in deep_rates)) else steady[:1]
        plan.append(("single_R%d" % R, lambda R=R, sel=sel, lift=lift, deep=deep: [hist(s, R, "single", False) for s in sel + lift] + [hist(s, R, "single", True) for s in sel[::5]]
                     + [hist(s, R, "single", False) for s in deep]))
    plan.append(("multi_R20", lambda: [hist(s, 20, "multi", False) for s in cover20[::3] + deep20[:8] + steady[:1]]))
    # ordinary requests of a long-running member while short-lived members come and go (forced draws in between)
    plan.append(("multi_churn_R20", lambda: [hist(s, 20, "multi", False) for s in churn20]))
    plan.append(("multi_churn_R1", lambda: [hist(s, 1, "multi", False) for s in churn20[::4]]))
    # a bar that is complete but not finished (position >= length from the start) is throttled like any other
    plan.append(("multi_late_R20", lambda: [hist(s, 20, "multi_late", False) for s in cover20[::6] + steady[:1]]))
    plan.append(("single_full_R20", lambda: [hist(s, 20, "single", False, length=0) for s in cover20[::4] + steady[:1]]))
    plan.append(("multi_full_R20", lambda: [hist(s, 20, "multi", False, length=0) for s in cover20[::6] + steady[:1]]))
    plan.append(("single_samepos_R20", lambda: [hist(s, 20, "single", False, samepos=True) for s in cover20[::4] + steady[:1]]))
    plan.append(("posgate_full", lambda: [hist(s, 1, "pos", False, length=3) for s in cover10[::3] + steady[:1]]))
    # the limiter of the real console::Term target (TargetKind::Term), driven through a pseudo-terminal
    plan.append(("pty_R20", lambda: [hist(s, 20, "pty", False) for s in cover20[::3] + lifted20[::6] + steady[:1]]))
    plan.append(("pty_R255", lambda: [hist(s, 255, "pty", False) for s in cover20[::6] + steady[:1]]))
    plan.append(("posgate", lambda: [hist(s, 1, "pos", False) for s in cover10 + (lifted10[::2] if q else lifted10) + steady]))
    # the histories of a family are built when its turn comes (all rates at once do not fit in memory)
    only = os.environ.get("VERIF_FAMILIES")
    for name, mk in plan:
        if only:
            import re as _re
            if not _re.search(only, name):
                continue
        hs = mk()
        bad, st, total = vlib.replay_and_judge("%s_%s" % (pid, name), hs, "api", "Trace_Throttle", shards=8)
        nh += len(hs)
        nrec += total
        for k, v in st.items():
            stats[k] = stats.get(k, 0) + v
        fams.append({"family": name, "histories": len(hs), "records": total, "verdicts": len(bad)})
        if len(samples) < 2:
            samples.append({"family": name, "cfg": hs[0]["cfg"], "ops": hs[0]["ops"][:12]})
        byh = vlib.by_h(hs)
        for v in bad:
            h = byh(v["h"])
            fails.append(dict(cls="%s/%s" % (v["rule"], name.split("_")[0]), rule=v["rule"], n=v["i"], kf=kf.classify_c05(h, v),
                              what="rule=%s family=%s step=%d" % (v["rule"], name, v["i"]),
                              replay={"driver": "api", "monitor": "Trace_Throttle", "rule": v["rule"], "history": {"h": 1, "cfg": h["cfg"], "ops": h["ops"][:v["i"]]}}))
    # ticker clause: the steady-tick thread's redraw requests are ordinary requests. Under the controlled scheduler the ticker thread ticks a
    # hundred times and more while the virtual clock stands still: a 20 Hz target may paint its burst of 20 and one frame, not more
    flood = [{"setup": {"multi": multi, "bars": 1, "ticker": [1], "hz": 20, "frozen_clock": True}, "threads": [[{"op": "tick", "b": 1}]],
              "schedule": [0] * k + [100] * n, "limcheck": 21, "spincheck": False, "program": "ticker_flood_%s_%d_%d" % ("multi" if multi else "single", k, n)}
             for multi in (False, True) for n in (400, 1200) for k in (2, 3, 4, 5)]     # k: how far the caller gets before the ticker runs
    badf, stf, totalf = vlib.replay_and_judge("%s_ticker_flood" % pid, flood, "sync", "Trace_Sync", shards=2)
    nh += len(flood)
    nrec += totalf
    fams.append({"family": "ticker_flood", "histories": len(flood), "records": totalf, "verdicts": len(badf), "ticker_ticks": stf.get("ticks", 0)})
    if stf.get("ticks", 0) < 100 and not badf:
        raise vlib.ToolError("vacuous ticker clause: %s" % stf)
    byf = {r["h"]: r for r in flood}
    for v in badf:
        fails.append(dict(cls="%s/ticker" % v["rule"], rule=v["rule"], n=1, kf=[], what="rule=%s family=ticker_flood program=%s" % (v["rule"], byf[v["h"]]["program"]),
                          replay={"driver": "sync", "monitor": "Trace_Sync", "rule": v["rule"], "history": byf[v["h"]]}))
    if (stats.get("painted", 0) == 0 or stats.get("denied", 0) == 0 or stats.get("fresh", 0) == 0) and not fails:
        raise vlib.ToolError("vacuous run: painted/denied/fresh clauses not all exercised: %s" % stats)
    # "skipped draws lose nothing: the next painted frame shows the latest position, length and texts" for several bars behind one
    # limited target is a statement about the whole frame: judged by the Screen contract on limited MultiProgress histories
    latest = screen_check(pid, tier, seed, [
        fam("latest_multi", conf="multi", W=6, H=12, Multi=True, MaxBars=2, Pre=2, D=5 if q else 6, BarOps=("burst", "set_message", "inc", "set_length", "tick"), MpOps=(),
            MsgShapes=("a", "W1"), Tpls=("MnC",), Fins=("AndLeave",), Hz=2, DTs=(0, 600000), M0="id", shards=12)], "")
    states += latest["coverage"]["states"]
    trans += latest["coverage"]["transitions"]
    nh += latest["coverage"]["traces_validated_against_impl"]
    nrec += latest["coverage"]["records_validated"]
    fams += latest["coverage"]["families"]
    fails += latest["failures"]
    fails.sort(key=lambda x: x["n"])
    coverage = dict(states=states, transitions=trans, traces_validated_against_impl=nh, records_validated=nrec, samples=samples, clause_counts=stats,
                    families=fams, design_level=design, rates=rates,
                    rule="request-time sequences = transition cover of the Limiter model (one shortest gap sequence per reachable bucket state and decision) + random walks + steady "
                         "saturating runs, scaled to each refresh rate around the code's and the literal interval; every request judged by Trace_Throttle", exhaustive=False)
    return dict(level="model_checking", coverage=coverage, failures=fails,
                assumptions=["virtual monotonic clock by symbol interposition (single-threaded driver)", "painted = a flush reached the spy terminal",
                             "gaps are multiples of 1/4000 of the interval (so exact multiples, one sub-step before and after), up to 1000 intervals"])


PROPS = {
    "C01": c01,
    "C02": c02,
    "C03": c03,
    "C04": c04,
    "C05": c05,
    "C06": c06,
    "C07": c07,
    "C09": c09,
    "C18": c18,
    "C16": c16,
    "C19": c19,
}

# property checks built in separate modules (bin/props_<name>.py exporting PROPS)
import glob as _glob
import importlib as _importlib
for _f in sorted(_glob.glob(os.path.join(os.path.dirname(os.path.abspath(__file__)), "props_*.py"))):
    _m = _importlib.import_module(os.path.basename(_f)[:-3])
    PROPS.update(getattr(_m, "PROPS", {}))
