#!/usr/bin/env python3
"""Extract `<<"TAG", "json">>` lines printed by TLC's PrintT into NDJSON."""
import sys, json
def extract(path, tag="REPLAY"):
    pre = '<<"%s", "' % tag
    for l in open(path, errors='replace'):
        if l.startswith(pre):
            s = l.rstrip('\n')[len(pre):-3]
            yield s.replace('\\"', '"').replace('\\\\', '\\')
if __name__ == '__main__':
    tag = sys.argv[3] if len(sys.argv) > 3 else "REPLAY"
    with open(sys.argv[2], 'w') as out:
        n = 0
        for s in extract(sys.argv[1], tag):
            out.write(s + '\n'); n += 1
    print(n)
