#!/usr/bin/env python3
"""Regenerate MANIFEST.json from the table below (keeps it valid and in sync with bin/props.py)."""
import json, subprocess, os
ROOT = os.path.dirname(os.path.dirname(os.path.abspath(__file__)))
SCREEN_NOTE = ("Trusted base: spec/Term.tla as terminal semantics (itself bound to the vt100 emulator by the Term conformance "
               "run), the harness tokeniser's column widths, TLC. Templates/texts restricted to the families of Screen!Tpl and "
               "MC_Screen!Shape; bounds per family are in the evidence file.")
CHECKS = {
 "C01": ("model_checking", "TLC enumerates every history of the MC_Screen model up to the family depth (plus -simulate walks); each is replayed on the real library against a spy terminal under a virtual clock and TLC (Trace_Screen) evaluates the Screen contract after every call: screen = log + frame exactly, cursor, no output without flush, forced paints.", "4 C01", SCREEN_NOTE,
         "TLA+ contract (Screen.tla) + TLC-generated histories replayed on the code + TLC trace monitor"),
 "C02": ("model_checking", "Same engine over MultiProgress histories: order defined by add/insert*/remove re-implemented on a plain sequence, every member once, below the log, static blocks whole or gone; exhaustive depth-5 families plus random walks of depth 30.", "4 C02", SCREEN_NOTE,
         "TLA+ contract (Screen.tla) + TLC-generated histories replayed on the code + TLC trace monitor"),
}
T = "TLA+ contract (Screen.tla) + TLC-generated histories replayed on the code + TLC trace monitor"
CHECKS["C03"] = ("model_checking", "Screen engine over histories interleaving println/suspend with bar life-cycles, single bars and MultiProgress, limiters exhausted by bursts at a frozen instant, every finish/drop order of up to 3 bars; LogOK: every emitted line once, in order, above the region after every call.", "4 C03", SCREEN_NOTE, T)
CHECKS["C04"] = ("model_checking", "Screen engine over every finish path, drop and iterator exhaustion after bursts that empty both limiters; ForcedOK (a final frame is painted), ScreenOK (it shows position=length / unchanged, the message, nothing for clearing variants), FinalOK (static text is the final state), GetOK (is_finished, position).", "4 C04", SCREEN_NOTE, T)
CHECKS["C16"] = ("model_checking", "Screen engine over every order of with_tab_width/set_tab_width, with_style/set_style, set_message/set_prefix/finish_with_message with tab widths 0,1,4,8 and tabs in message, prefix, template literal and custom-key output; NoTab, ScreenOK (tabs are tab-width spaces), GetOK (message()/prefix() expanded).", "4 C16", SCREEN_NOTE, T)
CHECKS["C19"] = ("model_checking", "Screen engine on terminals from 1x1, line widths around multiples of the width, bar sets growing and shrinking past the height; rows compared against scrollback+viewport with the terminal's own wrapping rule and the leading lines that fit (Cut).", "4 C19", SCREEN_NOTE, T)
CHECKS["C06"] = ("model_checking", "Screen engine on the four ways of being hidden (hidden target, Term over a pipe, member of a hidden MultiProgress, removed member): SilentOK (no TermLike output call, no byte on the pipe) on every call of every history up to depth 4-5, GetOK (getters equal the contract's logical state, the same a visible bar is held to).", "4 C06", SCREEN_NOTE, T)
CHECKS["C07"] = ("model_checking", "TLC enumerates every history of depth 3-4 over the u64 boundary arguments (plus random depth 12); the real getters, fraction() and the rendered {pos} {len} {percent} are checked after every call against Logical.tla on exact multi-limb u64 arithmetic (U64.tla). Sequential clause; the concurrent-increment clause is covered by C08's atomic-step model when built.", "4 C07", "Trusted base: TLC, U64.tla limb arithmetic (sanity-checked against known values), harness limb encoding.", "TLA+ contract on exact u64 limbs + TLC-generated histories replayed on the code + TLC trace monitor")
CHECKS["C18"] = ("fault_enumeration", "Every history of the family alphabets x every fault index k in {1,2,3,5,8}/{1,2,4,7} x {once, sticky}: the k-th terminal call after the injection point fails. NoPanic (process aborts included, each history runs in a forked child), GetOK (logical state as without the fault; later calls on the same and sibling bars work), ErrReported.", "4 C18", SCREEN_NOTE, "TLC-enumerated histories with injected TermLike failures replayed on the code; TLC trace monitor (fault mode)")
CHECKS["C05"] = ("model_checking", "TLC checks the bucket algorithm (Limiter.tla) against the interval form of the window and freshness laws exhaustively for burst 3 (it found the banked-remainder counterexample, since repaired); its behaviours (transition cover for bursts 20/10, all short gap sequences lifted to the real bursts, random walks, steady saturating runs) are replayed under the virtual clock at rates 1..255 and every request is judged by Trace_Throttle in the literal rate form on exact ns arithmetic: WindowOK, FreshOK, LatestOK; standalone, MultiProgress and the position gate of inc.", "4 C05", "Trusted base: virtual clock by symbol interposition, U64.tla arithmetic, TLC.", "TLA+ model of the token buckets checked by TLC + behaviours replayed on the code under a virtual clock + TLC trace monitor")
CHECKS["C09"] = ("model_checking", "TLC enumerates timed histories (gaps 1 ms..3 days, steps 1..10^9, resets, backwards seeks, stalls) with a query after each step; the real per_sec/eta/elapsed/duration are logged as exact integers and Trace_Estimator evaluates the laws of EstimatorLaws.tla at every query (finite, steady = true rate within 1e-6, upper bound, decay, forgetfulness against a fresh twin, eta = remaining/rate, duration = elapsed + eta).", "4 C09", "Trusted base: the harness projection of f64 to 16 significant digits; tolerance 1e-6; the exponential weighting itself is not modelled.", "TLA+ law module on exact naturals + TLC-generated timed histories replayed under a virtual clock + TLC trace monitor")
def main():
    hooks = {"guard": "indicatif_verif", "enable": "harness/.cargo/config.toml passes --cfg indicatif_verif to rustc for the path dependency on /repo",
             "baseline_off_cmd": "cd /repo && cargo test --workspace --no-fail-fast --offline", "source_commits": [], "add_only": True}
    checks = []
    for pid, (cat, text, ref, note, tech) in sorted(CHECKS.items()):
        checks.append({"property_id": pid, "quick_cmd": "bin/check %s quick" % pid, "thorough_cmd": "bin/check %s thorough" % pid,
                       "evidence_file": "evidence/%s.json" % pid, "replay_cmd_template": "bin/show {path}", "engine": "tlc-contract-monitor",
                       "level_claimed": {"category": cat, "text": text, "design_ref": "DESIGN.md section " + ref}, "level_note": note, "technique": tech})
    allp = [json.loads(l)["id"] for l in open(os.path.join(ROOT, "properties.jsonl"))]
    na = [{"property_id": p, "reason": "check not built yet in this round (planned, see DESIGN.md section 4)"} for p in allp if p not in CHECKS]
    m = {"version": 1, "setup_cmd": "bin/setup", "hooks": hooks,
         "engines": [{"name": "tlc-contract-monitor", "path": "bin/check", "serves_properties": sorted(CHECKS), "kind_free_text": "TLC model + behaviour generation, Rust replay harness, TLC trace monitors"}],
         "checks": checks, "not_applicable": na,
         "notes": "exit 0 held / 1 VIOLATION / 2 tool error; known findings in known_findings.json; VERIF_SEED seeds tlc -simulate."}
    json.dump(m, open(os.path.join(ROOT, "MANIFEST.json"), "w"), indent=1)
main()
