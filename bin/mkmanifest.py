#!/usr/bin/env python3
"""Regenerate MANIFEST.json from the table below (keeps it valid and in sync with bin/props.py)."""
import json, subprocess, os
ROOT = os.path.dirname(os.path.dirname(os.path.abspath(__file__)))
SCREEN_NOTE = ("Trusted base: spec/Term.tla as terminal semantics (itself bound to the vt100 emulator by the Term conformance "
               "run), the harness tokeniser's column widths, TLC. Templates/texts restricted to the families of Screen!Tpl and "
               "MC_Screen!Shape; bounds per family are in the evidence file.")
CHECKS = {
 "C01": ("model_checking", "TLC enumerates every history of the MC_Screen model up to the family depth (plus -simulate walks); each is replayed on the real library against a spy terminal under a virtual clock and TLC (Trace_Screen) evaluates the Screen contract after every call: screen = log + frame exactly, cursor, no output without flush, forced paints.", "4 C01", SCREEN_NOTE,
         "TLA+ contract (Screen.tla) + TLC-generated histories replayed on the code + TLC trace monitor"),
 "C02": ("model_checking", "Same engine over MultiProgress histories: order defined by add/insert*/remove re-implemented on a plain sequence, every member once, below the log, static blocks whole or gone; exhaustive depth-5 families plus random walks of depth 30.", "4 C02", SCREEN_NOTE,
         "TLA+ contract (Screen.tla) + TLC-generated histories replayed on the code + TLC trace monitor"),
}
def main():
    hooks = {"guard": "indicatif_verif", "enable": "harness/.cargo/config.toml passes --cfg indicatif_verif to rustc for the path dependency on /repo",
             "baseline_off_cmd": "cd /repo && cargo test --workspace --no-fail-fast --offline", "source_commits": [], "add_only": True}
    checks = []
    for pid, (cat, text, ref, note, tech) in sorted(CHECKS.items()):
        checks.append({"property_id": pid, "quick_cmd": "bin/check %s quick" % pid, "thorough_cmd": "bin/check %s thorough" % pid,
                       "evidence_file": "evidence/%s.json" % pid, "replay_cmd_template": "bin/show {path}", "engine": "tlc-contract-monitor",
                       "level_claimed": {"category": cat, "text": text, "design_ref": "DESIGN.md section " + ref}, "level_note": note, "technique": tech})
    allp = [json.loads(l)["id"] for l in open(os.path.join(ROOT, "properties.jsonl"))]
    na = [{"property_id": p, "reason": "check not built yet in this round (planned, see DESIGN.md section 4)"} for p in allp if p not in CHECKS]
    m = {"version": 1, "setup_cmd": "bin/setup", "hooks": hooks,
         "engines": [{"name": "tlc-contract-monitor", "path": "bin/check", "serves_properties": sorted(CHECKS), "kind_free_text": "TLC model + behaviour generation, Rust replay harness, TLC trace monitors"}],
         "checks": checks, "not_applicable": na,
         "notes": "exit 0 held / 1 VIOLATION / 2 tool error; known findings in known_findings.json; VERIF_SEED seeds tlc -simulate."}
    json.dump(m, open(os.path.join(ROOT, "MANIFEST.json"), "w"), indent=1)
main()
