#!/usr/bin/env python3
"""show_B <replay.json>: replay a C11 / C12 / C13 replay file (drivers place / field / bargeom) on the real library and
print, per operation, the inputs and what was painted; then run the monitor on the recorded trace and print its verdict."""
import json, os, subprocess, sys, tempfile
ROOT = os.path.dirname(os.path.dirname(os.path.abspath(__file__)))
sys.path.insert(0, os.path.join(ROOT, "bin"))
import vlib


def txt(cells):
    return "".join(chr(c) if 32 <= c < 127 else {233: "é", 2000: "<SGR>"}.get(c, "<%d>" % c) for c in cells)


def main():
    r = json.load(open(sys.argv[1]))
    drv, mon, hist = r["driver"], r["monitor"], r["history"]
    d = tempfile.mkdtemp(prefix="showB")
    inp, tr = os.path.join(d, "in.ndjson"), os.path.join(d, "trace.ndjson")
    open(inp, "w").write(json.dumps(hist) + "\n")
    subprocess.run([vlib.HARNESS, drv, inp, tr], check=True)
    print("replay %s: driver=%s monitor=%s failed rule=%s" % (os.path.basename(sys.argv[1]), drv, mon, r.get("rule")))
    for l in open(tr):
        x = json.loads(l)
        if x["op"] == "init":
            continue
        keys = [k for k in ("kind", "key", "m", "w", "al", "tr", "pre", "suf", "tw", "n", "c", "chars", "haslen", "len", "pos", "pos0", "nolen", "k", "idx", "ns") if k in x and x[k] not in ("", [], None)]
        ins = " ".join("%s=%s" % (k, txt(x[k]) if isinstance(x[k], list) and all(isinstance(c, int) for c in x[k]) and k in ("m", "pre", "suf", "chars") else x[k]) for k in keys)
        print("%3d %-8s %s" % (x["i"], x["op"], ins))
        if "out" in x and x.get("nstr", 0) >= 1:
            print("      painted: |%s|" % txt(x["out"]))
        if x.get("panic"):
            print("      PANIC: %s" % x["panic"])
    v = vlib.run_monitor(mon, tr, d)
    print("monitor verdicts:", v["bad"])


if __name__ == "__main__":
    main()
