//! Conformance of spec/Term.tla with the vt100 emulator (what InMemoryTerm wraps): each input
//! line is a TLC behaviour {w,h,calls,rows,r,c,top}; the calls are replayed into a vt100 parser
//! (with scrollback) and rows + cursor are compared.
use std::io::Write;
use serde_json::{json, Value};
use crate::tok;

fn bytes_of(call: &Value) -> String {
    let n = call["n"].as_u64().unwrap_or(0);
    let s = tok::cells_to_string(&call["c"]);
    match call["k"].as_str().unwrap_or("") {
        "up" => if n > 0 { format!("\x1b[{n}A") } else { String::new() },
        "down" => if n > 0 { format!("\x1b[{n}B") } else { String::new() },
        "left" => if n > 0 { format!("\x1b[{n}D") } else { String::new() },
        "right" => if n > 0 { format!("\x1b[{n}C") } else { String::new() },
        "clear" => "\r\x1b[2K".to_string(),
        "line" => format!("{s}\r\n"),
        "str" => s,
        _ => String::new(),
    }
}

fn sb_len(p: &mut vt100::Parser) -> usize {
    // vt100 0.15 panics when rows are read at a scrollback offset larger than the screen height,
    // so the offset is only used to learn the scrollback length and reset at once.
    p.set_scrollback(usize::MAX);
    let n = p.screen().scrollback();
    p.set_scrollback(0);
    n
}

fn row_of(p: &vt100::Parser, r: u16, w: u16) -> Vec<i64> {
    let mut v = Vec::new();
    for c in 0..w {
        let g = match p.screen().cell(r, c) {
            None => 0,
            Some(cell) => {
                if cell.is_wide_continuation() { -1 }
                else if !cell.has_contents() { 0 }
                else { let cs = tok::string_to_cells(&cell.contents()); cs.into_iter().find(|g| *g < 2000).map(|g| if g == 32 { 0 } else { g }).unwrap_or(0) }
            }
        };
        v.push(g);
    }
    v
}

/// A vt100 parser that also keeps every row that scrolled out of the viewport.
pub struct Emu { pub p: vt100::Parser, pub w: u16, pub h: u16, pub gone: Vec<Vec<i64>> }
impl Emu {
    pub fn new(w: u16, h: u16) -> Emu { Emu { p: vt100::Parser::new(h, w, 1000000), w, h, gone: vec![] } }
    fn feed_unit(&mut self, bytes: &[u8]) {
        let before = sb_len(&mut self.p);
        let top = row_of(&self.p, 0, self.w);
        self.p.process(bytes);
        let after = sb_len(&mut self.p);
        if after > before { self.gone.push(top); }
    }
    pub fn call(&mut self, call: &Value) {
        let k = call["k"].as_str().unwrap_or("");
        if k == "str" || k == "line" {
            let s = tok::cells_to_string(&call["c"]);
            let mut it = s.chars().peekable();
            while let Some(c) = it.next() {
                if c == '\x1b' {
                    // feed a whole CSI sequence as one unit
                    let mut u = String::from(c);
                    while let Some(&d) = it.peek() { u.push(d); it.next(); if ('@'..='~').contains(&d) && d != '[' { break; } }
                    self.feed_unit(u.as_bytes());
                } else {
                    let mut b = [0u8; 4];
                    self.feed_unit(c.encode_utf8(&mut b).as_bytes());
                }
            }
            if k == "line" { self.feed_unit(b"\r"); self.feed_unit(b"\n"); }
        } else {
            let b = bytes_of(call);
            if !b.is_empty() { self.feed_unit(b.as_bytes()); }
        }
    }
    pub fn all_rows(&self) -> Vec<Vec<i64>> {
        let mut rows = self.gone.clone();
        for r in 0..self.h { rows.push(row_of(&self.p, r, self.w)); }
        rows
    }
}

pub fn run(beh: &Value, out: &mut dyn Write) -> bool {
    let w = beh["w"].as_u64().unwrap() as u16;
    let h = beh["h"].as_u64().unwrap() as u16;
    let mut e = Emu::new(w, h);
    for c in beh["calls"].as_array().unwrap() { e.call(c); }
    let (cr, cc) = e.p.screen().cursor_position();
    let mut rows = e.all_rows();
    let sb = rows.len() - h as usize;
    let mut exp: Vec<Vec<i64>> = beh["rows"].as_array().unwrap().iter().map(|r| r.as_array().unwrap().iter().map(|x| x.as_i64().unwrap()).collect()).collect();
    let blank = |r: &Vec<i64>| r.iter().all(|g| *g == 0);
    while rows.last().map(blank).unwrap_or(false) { rows.pop(); }
    while exp.last().map(blank).unwrap_or(false) { exp.pop(); }
    let er = beh["r"].as_i64().unwrap();
    let ec = beh["c"].as_i64().unwrap();
    let ok = rows == exp && (sb as i64 + cr as i64 + 1) == er && cc as i64 == ec;
    if !ok {
        writeln!(out, "{}", json!({"beh": beh, "got_rows": rows, "got_r": sb as i64 + cr as i64 + 1, "got_c": cc})).unwrap();
    }
    ok
}
