//! Driver for C09 (rate / ETA estimator): executes timed update/reset/query histories on a hidden
//! ProgressBar under the virtual clock and logs the getters projected to exact integers.
use std::io::Write;
use std::panic::{catch_unwind, AssertUnwindSafe};
use std::time::Duration;
use indicatif::{ProgressBar, ProgressDrawTarget};
use serde_json::{json, Map, Value};
use crate::{api::{limbs, u64_of}, clock};

/// any natural number as base-2^15 limbs
fn limbs_u128(mut x: u128) -> Value {
    let mut v = vec![];
    loop { v.push((x & 0x7fff) as u64); x >>= 15; if x == 0 { break; } }
    json!(v)
}
fn dur_ns(d: Duration) -> Value { limbs_u128(d.as_nanos()) }

/// f64 -> {finite, neg, m, e} with value = m * 10^(e-15), m < 10^16
fn rate_json(x: f64) -> Value {
    if !x.is_finite() { return json!({"finite": false, "neg": x < 0.0, "tiny": false, "m": [0], "e": 315}); }
    let neg = x < 0.0 || (x == 0.0 && x.is_sign_negative() && false);
    let a = x.abs();
    if a == 0.0 { return json!({"finite": true, "neg": neg, "tiny": false, "m": [0], "e": 315}); }
    let s = format!("{:.15e}", a);
    let (mant, exp) = s.split_once('e').unwrap();
    let digits: String = mant.chars().filter(|c| c.is_ascii_digit()).collect();
    let m: u128 = digits.parse().unwrap();
    let e: i64 = exp.parse().unwrap();
    // keep the exponent non-negative for the monitor: value = m * 10^(e-15); shift very small values
    // rates below 10^-30 steps/s are logged as "tiny" (treated as zero by the monitor, which then skips the ETA law):
    // 10^-30 is forty orders below anything the histories produce as a real rate
    if e < -30 { return json!({"finite": true, "neg": neg, "tiny": true, "m": [0], "e": 315}); }
    json!({"finite": true, "neg": neg, "tiny": false, "m": limbs_u128(m), "e": e + 300})   // logged exponent is offset by 300
}

pub fn run_history(hist: &Value, out: &mut dyn Write) {
    clock::reset();
    let h = hist["h"].clone();
    let mut pb: Option<ProgressBar> = None;
    let mut twin: Option<(ProgressBar, u64)> = None; // (bar, base position)
    let mut pos: u64 = 0;
    let mut rec0 = Map::new();
    rec0.insert("h".into(), h.clone()); rec0.insert("i".into(), json!(0)); rec0.insert("op".into(), json!("init")); rec0.insert("panic".into(), json!(""));
    writeln!(out, "{}", Value::Object(rec0)).unwrap();
    for (i, op) in hist["ops"].as_array().cloned().unwrap_or_default().iter().enumerate() {
        let name = op["op"].as_str().unwrap_or("");
        let mut rec = op.as_object().cloned().unwrap_or_default();
        let r = catch_unwind(AssertUnwindSafe(|| {
            let mut q = Map::new();
            match name {
                "new" => {
                    let len = if op["nolen"].as_bool().unwrap_or(false) { None } else { Some(u64_of(&op["len"])) };
                    // every other history (decided by its first operation) starts the bar with two minutes on its clock already (with_elapsed):
                    // elapsed() and duration() shift, the rate and the eta are those of the same bar without it
                    let backdated = op.to_string().bytes().fold(0u32, |a, b| a.wrapping_mul(31).wrapping_add(b as u32)) % 2 == 1;
                    let b = ProgressBar::with_draw_target(len, ProgressDrawTarget::hidden());
                    pb = Some(if backdated { b.with_elapsed(Duration::from_secs(120)) } else { b });
                    pos = 0; twin = None;
                }
                "adv" => { clock::advance(u64_of(&op["ns"])); }
                "upd" => {
                    pos = pos.wrapping_add(u64_of(&op["steps"]));
                    let p = pos;
                    pb.as_ref().unwrap().update(|s| s.set_pos(p));
                    if let Some((t, base)) = &twin { let b = *base; t.update(|s| s.set_pos(p - b)); }
                }
                "rewind" => {
                    pos = u64_of(&op["to"]);
                    let p = pos;
                    pb.as_ref().unwrap().update(|s| s.set_pos(p));
                    let len = pb.as_ref().unwrap().length();
                    twin = Some((ProgressBar::with_draw_target(len.map(|l| l - p), ProgressDrawTarget::hidden()), p));
                }
                "reset_eta" => {
                    pb.as_ref().unwrap().reset_eta();
                    let len = pb.as_ref().unwrap().length();
                    twin = Some((ProgressBar::with_draw_target(len.map(|l| l.saturating_sub(pos)), ProgressDrawTarget::hidden()), pos));
                }
                "reset" => {
                    pb.as_ref().unwrap().reset();
                    pos = 0;
                    let len = pb.as_ref().unwrap().length();
                    twin = Some((ProgressBar::with_draw_target(len, ProgressDrawTarget::hidden()), 0));
                }
                "finish" => { pb.as_ref().unwrap().abandon(); if let Some((t, _)) = &twin { t.abandon(); } }
                "unset_length" => { pb.as_ref().unwrap().unset_length(); }
                "query" => {
                    let p = pb.as_ref().unwrap();
                    q.insert("rate".into(), rate_json(p.per_sec()));
                    q.insert("eta".into(), dur_ns(p.eta()));
                    q.insert("elapsed".into(), dur_ns(p.elapsed()));
                    q.insert("dur".into(), dur_ns(p.duration()));
                    match &twin { Some((t, _)) => { q.insert("twin".into(), rate_json(t.per_sec())); q.insert("hastwin".into(), json!(true)); }
                                  None => { q.insert("twin".into(), rate_json(0.0)); q.insert("hastwin".into(), json!(false)); } }
                }
                _ => {}
            }
            q
        }));
        match r {
            Ok(q) => { for (k, v) in q { rec.insert(k, v); } rec.insert("panic".into(), json!("")); }
            Err(e) => { let msg = e.downcast_ref::<String>().cloned().or_else(|| e.downcast_ref::<&str>().map(|s| s.to_string())).unwrap_or_else(|| "panic".into()); rec.insert("panic".into(), json!(if msg.is_empty() { "panic".to_string() } else { msg })); }
        }
        rec.insert("h".into(), h.clone());
        rec.insert("i".into(), json!(i + 1));
        rec.insert("t".into(), limbs(clock::now_rel()));
        if let Some(p) = pb.as_ref() {
            // a panic inside a getter poisons the bar: later getters panic too, which is data as well
            let g = catch_unwind(AssertUnwindSafe(|| (p.position(), p.length(), p.is_finished())));
            let (pos, len, fin) = match g { Ok(x) => x, Err(_) => { if rec["panic"] == "" { rec.insert("panic".into(), json!("getter panicked (poisoned lock)")); } (0, None, false) } };
            rec.insert("pos".into(), limbs(pos));
            rec.insert("haslen".into(), json!(len.is_some()));
            rec.insert("len".into(), limbs(len.unwrap_or(0)));
            rec.insert("fin".into(), json!(fin));
        }
        writeln!(out, "{}", Value::Object(rec)).unwrap();
    }
}
