//! Driver for C12 (field width, alignment, truncation): every operation renders one template with a
//! single `{msg:<align><width>[!]}` or `{wide_msg:<align>}` placeholder between two literals on a real
//! ProgressBar that draws into the spy terminal, and logs the painted cells of the line.
use std::io::Write;
use std::panic::{catch_unwind, AssertUnwindSafe};
use indicatif::{ProgressBar, ProgressDrawTarget, ProgressFinish, ProgressStyle};
use serde_json::{json, Map, Value};
use crate::{spy::Spy, tok};

/// literal text of a template: braces doubled
pub fn lit(s: &str) -> String { s.replace('{', "{{").replace('}', "}}") }

pub fn panic_msg(e: Box<dyn std::any::Any + Send>) -> String {
    let msg = e.downcast_ref::<String>().cloned().or_else(|| e.downcast_ref::<&str>().map(|s| s.to_string())).unwrap_or_else(|| "panic".into());
    if msg.is_empty() { "panic".into() } else { msg }
}

/// the `str` calls (as cell arrays) the library made on the spy since the last take; only the first
/// `keep` of them are tokenised (the last one of a frame is the right-edge filler, which can be long),
/// the others are returned as empty arrays
pub fn painted_strs(spy: &Spy, keep: usize) -> Vec<Value> {
    let mut g = spy.0.lock().unwrap_or_else(|e| e.into_inner());
    let calls = std::mem::take(&mut g.calls);
    g.queries = 0;
    let mut out = vec![];
    for (c, user) in calls.iter() {
        if let (crate::spy::Call::Str(s), false) = (c, *user) {
            out.push(if out.len() < keep { tok::cells_json(s) } else { json!([]) });
        }
    }
    out
}

pub fn init_record(h: &Value, out: &mut dyn Write) {
    let mut rec0 = Map::new();
    rec0.insert("h".into(), h.clone()); rec0.insert("i".into(), json!(0)); rec0.insert("op".into(), json!("init")); rec0.insert("panic".into(), json!(""));
    writeln!(out, "{}", Value::Object(rec0)).unwrap();
}

/// one history per input line (shared by the field / bargeom / place drivers)
pub fn for_each_history(input: impl std::io::BufRead, out: &mut dyn Write, f: fn(&Value, &mut dyn Write)) {
    for line in input.lines() {
        let line = line.unwrap();
        if line.trim().is_empty() { continue; }
        let hist: Value = serde_json::from_str(&line).expect("bad history json");
        f(&hist, out);
    }
}

pub fn run_history(hist: &Value, out: &mut dyn Write) {
    let h = hist["h"].clone();
    init_record(&h, out);
    for (i, op) in hist["ops"].as_array().cloned().unwrap_or_default().iter().enumerate() {
        let mut rec = op.as_object().cloned().unwrap_or_default();
        let kind = op["kind"].as_str().unwrap_or("msg");
        let m = tok::cells_to_string(&op["m"]);
        let pre = tok::cells_to_string(&op["pre"]);
        let suf = tok::cells_to_string(&op["suf"]);
        let al = op["al"].as_str().unwrap_or("");
        let w = op["w"].as_u64().unwrap_or(0);
        let tr = op["tr"].as_bool().unwrap_or(false);
        let tw = op["tw"].as_u64().unwrap_or(65535) as u16;
        let pm = tok::cells_to_string(op.get("pm").unwrap_or(&Value::Null));
        let template = if kind == "bar" {
            format!("{}{{bar:{}{}}}{}", lit(&pre), al, w, lit(&suf))
        } else if kind == "wide2l" {
            // two lines with a wide element each; the first one has another alignment (pw: 1 "<", 2 "^", 3 ">"); the second line is the one that is judged
            let a1 = match op["pw"].as_u64().unwrap_or(1) { 2 => "^", 3 => ">", _ => "<" };
            format!("{{wide_msg:{}}}\n{}{{wide_msg:{}}}{}", a1, lit(&pre), al, lit(&suf))
        } else if kind == "wide2" {
            // the text in front of the wide element comes from another field ({prefix:P}); `pre` is its expected rendering and is not part of the template
            format!("{{prefix:{}}} {{wide_msg:{}}}{}", op["pw"].as_u64().unwrap_or(0), al, lit(&suf))
        } else if kind == "wide" {
            if al.is_empty() { format!("{}{{wide_msg}}{}", lit(&pre), lit(&suf)) } else { format!("{}{{wide_msg:{}}}{}", lit(&pre), al, lit(&suf)) }
        } else {
            format!("{}{{{}:{}{}{}{}}}{}", lit(&pre), if kind == "prefix" { "prefix" } else { "msg" }, al, w, if tr { "!" } else { "" }, op.get("sty").and_then(|x| x.as_str()).unwrap_or(""), lit(&suf))
        };
        let r = catch_unwind(AssertUnwindSafe(|| {
            let style = match ProgressStyle::with_template(&template) { Ok(s) => s, Err(e) => return (vec![], format!("{e}")) };
            let style = if kind == "bar" { style.progress_chars(&tok::cells_to_string(&op["chars"])) } else { style };
            let spy = Spy::new(tw, 100);
            let pb = ProgressBar::with_draw_target(Some(10), ProgressDrawTarget::term_like(Box::new(spy.clone())))
                .with_finish(ProgressFinish::Abandon).with_style(style);
            let pb = if kind == "wide2" { pb.with_message(m.clone()).with_prefix(pm.clone()) } else if kind == "bar" { pb.with_position(5) } else if kind == "prefix" { pb.with_prefix(m.clone()).with_message("zzzzzzzzzzzz") } else { pb.with_message(m.clone()).with_prefix("zzzzzzzzzzzz") };
            pb.tick();
            let strs = if kind == "wide2l" { let mut v = painted_strs(&spy, 2); if v.len() >= 2 { v.remove(0); } else { v.clear(); } v } else { painted_strs(&spy, 1) };
            spy.set_size(80, 100);     // the implicit final draw on drop is not part of the observation; keep it cheap
            (strs, String::new())
        }));
        let (strs, tplerr, panic) = match r { Ok((s, e)) => (s, e, String::new()), Err(e) => (vec![], String::new(), panic_msg(e)) };
        rec.insert("tpl".into(), tok::cells_json(&template));
        rec.insert("nstr".into(), json!(strs.len()));
        rec.insert("out".into(), strs.first().cloned().unwrap_or(json!([])));
        rec.insert("tplerr".into(), json!(tplerr));
        rec.insert("panic".into(), json!(panic));
        rec.insert("h".into(), h.clone());
        rec.insert("i".into(), json!(i + 1));
        writeln!(out, "{}", Value::Object(rec)).unwrap();
    }
}
