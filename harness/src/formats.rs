//! Driver for C15 (human-readable formatters): runs the real Display impls of HumanCount,
//! HumanFloatCount, HumanBytes, BinaryBytes, DecimalBytes, FormattedDuration and HumanDuration on
//! the inputs of a behaviour and logs (input, output cells, panic). `rnd` operations are expanded
//! into seeded pseudo-random inputs derived from (seed argument, salt, kind) only.
//! Input facts the specification cannot compute: for `hf` the record carries `std`, Rust's own
//! `format!("{:.p}", x)` rendering (computed here, independently of indicatif).
use std::io::Write;
use std::panic::{catch_unwind, AssertUnwindSafe};
use std::time::Duration;
use indicatif::{BinaryBytes, DecimalBytes, FormattedDuration, HumanBytes, HumanCount, HumanDuration, HumanFloatCount};
use serde_json::{json, Map, Value};
use crate::api::{limbs, u64_of};

fn cells(s: &str) -> Value { json!(s.chars().map(|c| c as u32).collect::<Vec<u32>>()) }
fn str_of(v: &Value) -> String { v.as_array().map(|a| a.iter().map(|c| char::from_u32(c.as_u64().unwrap_or(63) as u32).unwrap_or('?')).collect()).unwrap_or_default() }

struct Rng(u64);
impl Rng {
    fn next(&mut self) -> u64 {
        self.0 = self.0.wrapping_add(0x9E3779B97F4A7C15);
        let mut z = self.0;
        z = (z ^ (z >> 30)).wrapping_mul(0xBF58476D1CE4E5B9);
        z = (z ^ (z >> 27)).wrapping_mul(0x94D049BB133111EB);
        z ^ (z >> 31)
    }
    fn below(&mut self, n: u64) -> u64 { if n == 0 { 0 } else { self.next() % n } }
    /// random bit length, then random bits: log-uniform over the u64 range
    fn logu64(&mut self) -> u64 { let b = self.below(65); if b == 0 { 0 } else { let x = self.next() >> (64 - b); x | (1u64 << (b - 1)) } }
}

fn special(name: &str) -> f64 {
    match name {
        "nan" => f64::NAN, "inf" => f64::INFINITY, "-inf" => f64::NEG_INFINITY, "-0" => -0.0, "0" => 0.0,
        "min_pos" => f64::from_bits(1), "-min_pos" => -f64::from_bits(1), "max" => f64::MAX, "-max" => f64::MIN,
        "min_normal" => f64::MIN_POSITIVE, "eps" => f64::EPSILON, "2p53" => 9007199254740992.0, "-2p53" => -9007199254740992.0,
        _ => 0.0,
    }
}

fn panic_msg(e: Box<dyn std::any::Any + Send>) -> String {
    let m = e.downcast_ref::<String>().cloned().or_else(|| e.downcast_ref::<&str>().map(|s| s.to_string())).unwrap_or_else(|| "panic".into());
    if m.is_empty() { "panic".into() } else { m }
}

/// one concrete formatter call -> record fields
fn exec(op: &str, n: u64, d: Duration, x: f64, p: i64) -> Map<String, Value> {
    let mut rec = Map::new();
    rec.insert("op".into(), json!(op));
    match op {
        "hc" | "hb" | "bb" | "db" => { rec.insert("n".into(), limbs(n)); }
        "fd" | "hd" | "hda" => { rec.insert("secs".into(), limbs(d.as_secs())); rec.insert("nanos".into(), json!(d.subsec_nanos())); }
        "hf" => {
            let prec = if p < 0 { 4 } else { p as usize };
            rec.insert("std".into(), cells(&format!("{:.*}", prec, x)));
            rec.insert("p".into(), json!(p));
            rec.insert("bits".into(), json!(format!("{:016x}", x.to_bits())));
        }
        _ => {}
    }
    // the same value once more after a write that failed part-way: a writer that accepts only the first `cap` bytes (the output depends on the value only)
    struct Limited { left: usize }
    impl std::fmt::Write for Limited { fn write_str(&mut self, s: &str) -> std::fmt::Result { if s.len() > self.left { self.left = 0; Err(std::fmt::Error) } else { self.left -= s.len(); Ok(()) } } }
    let partial = |cap: usize| -> String {
        use std::fmt::Write as _;
        let mut w = Limited { left: cap };
        let r = catch_unwind(AssertUnwindSafe(|| match op {
            "hc" => write!(w, "{}", HumanCount(n)),
            "hb" => write!(w, "{}", HumanBytes(n)),
            "bb" => write!(w, "{}", BinaryBytes(n)),
            "db" => write!(w, "{}", DecimalBytes(n)),
            "fd" => write!(w, "{}", FormattedDuration(d)),
            "hd" => write!(w, "{}", HumanDuration(d)),
            "hda" => write!(w, "{:#}", HumanDuration(d)),
            "hf" => if p < 0 { write!(w, "{}", HumanFloatCount(x)) } else { write!(w, "{:.*}", p as usize, HumanFloatCount(x)) },
            _ => Ok(()),
        }));
        match r { Ok(Ok(())) => "ok".into(), Ok(Err(_)) => "err".into(), Err(e) => format!("panic: {}", panic_msg(e)) }
    };
    let render = || catch_unwind(AssertUnwindSafe(|| match op {
        "hc" => format!("{}", HumanCount(n)),
        "hb" => format!("{}", HumanBytes(n)),
        "bb" => format!("{}", BinaryBytes(n)),
        "db" => format!("{}", DecimalBytes(n)),
        "fd" => format!("{}", FormattedDuration(d)),
        "hd" => format!("{}", HumanDuration(d)),
        "hda" => format!("{:#}", HumanDuration(d)),
        "hf" => if p < 0 { format!("{}", HumanFloatCount(x)) } else { format!("{:.*}", p as usize, HumanFloatCount(x)) },
        _ => String::new(),
    }));
    let r = catch_unwind(AssertUnwindSafe(|| match op {
        "hc" => format!("{}", HumanCount(n)),
        "hb" => format!("{}", HumanBytes(n)),
        "bb" => format!("{}", BinaryBytes(n)),
        "db" => format!("{}", DecimalBytes(n)),
        "fd" => format!("{}", FormattedDuration(d)),
        "hd" => format!("{}", HumanDuration(d)),
        "hda" => format!("{:#}", HumanDuration(d)),
        "hf" => if p < 0 { format!("{}", HumanFloatCount(x)) } else { format!("{:.*}", p as usize, HumanFloatCount(x)) },
        _ => String::new(),
    }));
    match r {
        Ok(s) => {
            rec.insert("out".into(), cells(&s)); rec.insert("panic".into(), json!(""));
            // a write that fails after about half of the output, then the value again
            let pr = partial(s.len() / 2);
            rec.insert("partial".into(), json!(pr));
            match render() { Ok(s2) => { rec.insert("again".into(), cells(&s2)); } Err(e) => { rec.insert("again".into(), json!([])); rec.insert("panic".into(), json!(format!("second rendering: {}", panic_msg(e)))); } }
        }
        Err(e) => { rec.insert("out".into(), json!([])); rec.insert("again".into(), json!([])); rec.insert("partial".into(), json!("")); rec.insert("panic".into(), json!(panic_msg(e))); }
    }
    rec
}

const UNITS: [u64; 6] = [31536000, 604800, 86400, 3600, 60, 1];

fn expand_rnd(op: &Value, seed: u64) -> Vec<Map<String, Value>> {
    let kind = op["kind"].as_str().unwrap_or("u64");
    let count = op["count"].as_u64().unwrap_or(10);
    let salt = op["salt"].as_u64().unwrap_or(0);
    let kh = kind.bytes().fold(0u64, |a, b| a.wrapping_mul(131).wrapping_add(b as u64));
    let mut g = Rng(seed.wrapping_mul(0x2545F4914F6CDD1D) ^ salt.wrapping_mul(0x9E3779B97F4A7C15) ^ kh);
    let mut out = vec![];
    let z = Duration::ZERO;
    match kind {
        "u64" => {
            for _ in 0..count {
                let n = match g.below(6) {
                    0 => g.next(),
                    1 | 2 => g.logu64(),
                    3 => { let k = 1 + g.below(6) as u32; 1024u64.pow(k).wrapping_add(g.below(2001)).wrapping_sub(1000) }
                    4 => { let k = 1 + g.below(6) as u32; 1000u64.pow(k).wrapping_add(g.below(2001)).wrapping_sub(1000) }
                    // around a two-decimal rounding tie of some prefix: (m + 0.005) / 100 * base^k +- 1
                    _ => { let k = 1 + g.below(5) as u32; let m = 100 + g.below(99_900); let b = if g.below(2) == 0 { 1000u64 } else { 1024u64 };
                           (((200 * m + 1) as u128 * (b as u128).pow(k) / 20000) as u64).wrapping_add(g.below(3)).wrapping_sub(1) }
                };
                for o in ["hc", "hb", "bb", "db"] { out.push(exec(o, n, z, 0.0, 0)); }
            }
        }
        "f64" => {
            for _ in 0..count {
                let x = match g.below(9) {
                    0 => f64::from_bits(g.next()),                                             // any bit pattern: NaN, inf, subnormal, huge
                    1 => f64::from_bits(g.next() & 0x800F_FFFF_FFFF_FFFF),                     // subnormal / zero, both signs
                    2 => { let v = g.logu64() as f64; if g.below(2) == 0 { v } else { -v } }   // integers of every digit length
                    3 => { let v = (g.logu64() >> 11) as f64 + 0.5; if g.below(2) == 0 { v } else { -v } }  // ties at precision 0
                    4 => { let v = g.below(2_000_000) as f64 / 1000.0 + if g.below(2) == 0 { 0.0 } else { 999.0 }; if g.below(2) == 0 { v } else { -v } }
                    5 => { let v = (g.below(1_000_000_000) as f64) * 10f64.powi(g.below(40) as i32 - 20); if g.below(2) == 0 { v } else { -v } }
                    8 => { let b = g.next() | 0x7FF0_0000_0000_0000; f64::from_bits(if g.below(3) == 0 { b & 0xFFF0_0000_0000_0000 } else { b }) }  // NaN payloads, infinities
                    6 => { let e = g.below(600) as i32 - 300; let v = (1.0 + g.below(9000) as f64 / 1000.0) * 10f64.powi(e); if g.below(2) == 0 { v } else { -v } }
                    _ => { let k = g.below(19) as i32; let v = 10f64.powi(k) - if g.below(2) == 0 { 0.5 } else { 0.0004 }; if g.below(2) == 0 { v } else { -v } }  // carries into a new digit
                };
                let p = g.below(27) as i64 - 1;     // -1 = no precision given (the documented default of 4)
                out.push(exec("hf", 0, z, x, p));
            }
        }
        _ => {
            let mut ds: Vec<Duration> = vec![];
            for _ in 0..count {
                let d = match g.below(5) {
                    0 => Duration::new(g.next(), g.below(1_000_000_000) as u32),
                    1 | 2 => Duration::new(g.logu64(), g.below(1_000_000_000) as u32),
                    3 => { // around (n + 1/2) units
                        let u = UNITS[g.below(6) as usize]; let n = g.logu64() % (u64::MAX / u / 2).max(1);
                        let base = Duration::new(n * u + u / 2, if u % 2 == 1 { 500_000_000 } else { 0 });
                        let eps = Duration::from_nanos(g.logu64() % 2_000_000_000);
                        if g.below(2) == 0 { base.saturating_add(eps) } else { base.saturating_sub(eps) }
                    }
                    _ => { // around the switch point 1.5 unit - next/2
                        let j = g.below(5) as usize;
                        let base = Duration::from_millis(UNITS[j] * 1500 - UNITS[j + 1] * 500);
                        let eps = Duration::from_nanos(g.logu64() % 5_000_000_000);
                        if g.below(2) == 0 { base.saturating_add(eps) } else { base.saturating_sub(eps) }
                    }
                };
                ds.push(d);
            }
            ds.sort();
            for d in &ds { out.push(exec("hd", 0, *d, 0.0, 0)); }
            for d in &ds { out.push(exec("hda", 0, *d, 0.0, 0)); }
            for d in &ds { out.push(exec("fd", 0, *d, 0.0, 0)); }
        }
    }
    out
}

pub fn run_history(hist: &Value, out: &mut dyn Write, seed: u64) {
    let h = hist["h"].clone();
    writeln!(out, "{}", json!({"h": h, "i": 0, "op": "init", "panic": ""})).unwrap();
    let mut i = 0u64;
    for op in hist["ops"].as_array().cloned().unwrap_or_default().iter() {
        let name = op["op"].as_str().unwrap_or("");
        let recs = match name {
            "rnd" => expand_rnd(op, seed),
            "hf" => {
                let x = if let Some(sp) = op.get("sp").and_then(|v| v.as_str()).filter(|s| !s.is_empty()) { special(sp) }
                        else { str_of(&op["lit"]).parse::<f64>().unwrap_or(f64::NAN) };
                vec![exec("hf", 0, Duration::ZERO, x, op["p"].as_i64().unwrap_or(-1))]
            }
            "fd" | "hd" | "hda" => vec![exec(name, 0, Duration::new(u64_of(&op["secs"]), op["nanos"].as_u64().unwrap_or(0) as u32), 0.0, 0)],
            _ => vec![exec(name, u64_of(&op["n"]), Duration::ZERO, 0.0, 0)],
        };
        for mut rec in recs {
            i += 1;
            rec.insert("h".into(), h.clone());
            rec.insert("i".into(), json!(i));
            writeln!(out, "{}", Value::Object(rec)).unwrap();
        }
    }
}
