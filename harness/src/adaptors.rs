//! Driver for C17 (iterator / I/O / async / rayon adaptors). Every wrapped object is a scripted
//! source or sink whose calls return what the behaviour says (short counts, errors, Interrupted,
//! Pending); an identical unwrapped twin receives the same script, so each record carries the
//! wrapper's result (`ret`), the unwrapped object's result (`tret`), whether the caller-visible
//! data agree (`same`), the calls the wrapped source actually received (`calls`: function, size
//! requested, response, count) and position()/is_finished()/message() of the bar afterwards.
//! Async objects are polled with a no-op waker. The rayon part drives the Producer / Consumer /
//! Folder plumbing directly (split tree and consumption order from the behaviour) and adds one run
//! on a real thread pool.
use std::cell::RefCell;
use std::collections::{HashMap, VecDeque};
use std::io::{self, BufRead, IoSlice, IoSliceMut, Read, Seek, SeekFrom, Write};
use std::panic::{catch_unwind, AssertUnwindSafe};
use std::pin::Pin;
use std::rc::Rc;
use std::sync::atomic::{AtomicBool, AtomicUsize, Ordering};
use std::sync::{Arc, Mutex};
use std::task::{Context, Poll, Waker};
use indicatif::{ParallelProgressIterator, ProgressBar, ProgressBarIter, ProgressDrawTarget, ProgressFinish};
use rayon::iter::plumbing::{Consumer, Folder, Producer, ProducerCallback, Reducer, UnindexedConsumer};
use rayon::iter::{IndexedParallelIterator, IntoParallelIterator, ParallelIterator};
use serde_json::{json, Map, Value};
use tokio::io::{AsyncBufRead, AsyncRead, AsyncSeek, AsyncWrite, ReadBuf};
use crate::api::{limbs, u64_of};

// ------------------------------------------------------------------------------------------------
// scripted sources

#[derive(Default)]
struct Shared { q: VecDeque<(String, usize)>, log: Vec<Value>, wrote: Vec<u8> }
type Sh = Rc<RefCell<Shared>>;

fn pop(sh: &Sh) -> Option<(String, usize)> { sh.borrow_mut().q.pop_front() }
fn note(sh: &Sh, f: &str, n: usize, r: &str, k: usize) { sh.borrow_mut().log.push(json!({"f": f, "n": n.min(1 << 30), "r": r, "k": k.min(1 << 30)})); }
fn err_of(r: &str) -> io::Error {
    match r { "intr" => io::Error::new(io::ErrorKind::Interrupted, "scripted interruption"), "pend" => io::Error::new(io::ErrorKind::WouldBlock, "scripted would-block"),
              _ => io::Error::new(io::ErrorKind::Other, "scripted failure") }
}

/// one object that is a reader, buffered reader, writer and seeker (sync and async)
struct Src { sh: Sh, ctr: u64, buf: Vec<u8>, cur: u64, size: u64, target: Option<u64> }

impl Src {
    fn new() -> (Src, Sh) { let sh: Sh = Default::default(); (Src { sh: sh.clone(), ctr: 0, buf: vec![], cur: 0, size: 10, target: None }, sh) }
    fn byte(&mut self) -> u8 { let b = b'a' + (self.ctr % 26) as u8; self.ctr += 1; b }
    fn do_read(&mut self, f: &str, n: usize, put: &mut dyn FnMut(u8)) -> Result<usize, String> {
        let (r, k) = pop(&self.sh).unwrap_or(("ok".into(), 0));
        if r == "ok" { let m = k.min(n); for _ in 0..m { let b = self.byte(); put(b); } note(&self.sh, f, n, "ok", m); Ok(m) } else { note(&self.sh, f, n, &r, 0); Err(r) }
    }
    fn do_write(&mut self, f: &str, data: &[u8]) -> Result<usize, String> {
        let n = data.len();
        let (r, k) = pop(&self.sh).unwrap_or(("ok".into(), n));
        if r == "ok" { let m = k.min(n); self.sh.borrow_mut().wrote.extend_from_slice(&data[..m]); note(&self.sh, f, n, "ok", m); Ok(m) } else { note(&self.sh, f, n, &r, 0); Err(r) }
    }
    fn do_unit(&mut self, f: &str) -> Result<(), String> {
        let (r, _) = pop(&self.sh).unwrap_or(("ok".into(), 0));
        note(&self.sh, f, 0, &r, 0);
        if r == "ok" { Ok(()) } else { Err(r) }
    }
    fn do_fill(&mut self, f: &str) -> Result<(), String> {
        let (r, k) = pop(&self.sh).unwrap_or(("ok".into(), 0));
        if r == "ok" { if self.buf.is_empty() { for _ in 0..k { let b = self.byte(); self.buf.push(b); } } note(&self.sh, f, 0, "ok", self.buf.len()); Ok(()) } else { note(&self.sh, f, 0, &r, 0); Err(r) }
    }
    fn do_consume(&mut self, amt: usize) { let m = amt.min(self.buf.len()); self.buf.drain(..m); note(&self.sh, "consume", amt, "ok", 0); }
    fn resolve(&self, from: SeekFrom) -> Option<u64> {
        match from { SeekFrom::Start(o) => Some(o), SeekFrom::Current(d) => self.cur.checked_add_signed(d), SeekFrom::End(d) => self.size.checked_add_signed(d) }
    }
    fn mode_code(from: SeekFrom) -> usize { match from { SeekFrom::Start(_) => 1, SeekFrom::Current(_) => 2, SeekFrom::End(_) => 3 } }
}

impl Read for Src {
    fn read(&mut self, buf: &mut [u8]) -> io::Result<usize> { let mut i = 0; self.do_read("read", buf.len(), &mut |b| { buf[i] = b; i += 1; }).map_err(|r| err_of(&r)) }
    fn read_vectored(&mut self, bufs: &mut [IoSliceMut<'_>]) -> io::Result<usize> {
        let n: usize = bufs.iter().map(|b| b.len()).sum();
        let (mut s, mut i) = (0, 0);
        self.do_read("read_vectored", n, &mut |b| { while i >= bufs[s].len() { s += 1; i = 0; } bufs[s][i] = b; i += 1; }).map_err(|r| err_of(&r))
    }
}
impl BufRead for Src {
    fn fill_buf(&mut self) -> io::Result<&[u8]> { self.do_fill("fill_buf").map_err(|r| err_of(&r))?; Ok(&self.buf) }
    fn consume(&mut self, amt: usize) { self.do_consume(amt) }
}
impl Write for Src {
    fn write(&mut self, buf: &[u8]) -> io::Result<usize> { self.do_write("write", buf).map_err(|r| err_of(&r)) }
    fn write_vectored(&mut self, bufs: &[IoSlice<'_>]) -> io::Result<usize> { let all: Vec<u8> = bufs.iter().flat_map(|b| b.iter().copied()).collect(); self.do_write("write_vectored", &all).map_err(|r| err_of(&r)) }
    fn flush(&mut self) -> io::Result<()> { self.do_unit("flush").map_err(|r| err_of(&r)) }
}
impl Seek for Src {
    fn seek(&mut self, from: SeekFrom) -> io::Result<u64> {
        let (r, _) = pop(&self.sh).unwrap_or(("ok".into(), 0));
        match (r.as_str(), self.resolve(from)) {
            ("ok", Some(t)) => { self.cur = t; note(&self.sh, "seek", Self::mode_code(from), "ok", t.min(1 << 30) as usize); Ok(t) }      // k = the new offset (capped)
            ("ok", None) => { note(&self.sh, "seek", Self::mode_code(from), "inval", 0); Err(io::Error::new(io::ErrorKind::InvalidInput, "seek before start")) }
            (r, _) => { note(&self.sh, "seek", Self::mode_code(from), r, 0); Err(err_of(r)) }
        }
    }
}
fn poll_of<T>(r: Result<T, String>) -> Poll<io::Result<T>> { match r { Ok(x) => Poll::Ready(Ok(x)), Err(r) if r == "pend" => Poll::Pending, Err(r) => Poll::Ready(Err(err_of(&r))) } }
impl AsyncRead for Src {
    fn poll_read(self: Pin<&mut Self>, _cx: &mut Context<'_>, buf: &mut ReadBuf<'_>) -> Poll<io::Result<()>> {
        let this = self.get_mut();
        let n = buf.remaining();
        poll_of(this.do_read("poll_read", n, &mut |b| buf.put_slice(&[b])).map(|_| ()))
    }
}
impl AsyncWrite for Src {
    fn poll_write(self: Pin<&mut Self>, _cx: &mut Context<'_>, buf: &[u8]) -> Poll<io::Result<usize>> { poll_of(self.get_mut().do_write("poll_write", buf)) }
    fn poll_flush(self: Pin<&mut Self>, _cx: &mut Context<'_>) -> Poll<io::Result<()>> { poll_of(self.get_mut().do_unit("poll_flush")) }
    fn poll_shutdown(self: Pin<&mut Self>, _cx: &mut Context<'_>) -> Poll<io::Result<()>> { poll_of(self.get_mut().do_unit("poll_shutdown")) }
}
impl AsyncBufRead for Src {
    fn poll_fill_buf(self: Pin<&mut Self>, _cx: &mut Context<'_>) -> Poll<io::Result<&[u8]>> {
        let this = self.get_mut();
        match poll_of(this.do_fill("poll_fill_buf")) { Poll::Ready(Ok(())) => Poll::Ready(Ok(&this.buf)), Poll::Ready(Err(e)) => Poll::Ready(Err(e)), Poll::Pending => Poll::Pending }
    }
    fn consume(self: Pin<&mut Self>, amt: usize) { self.get_mut().do_consume(amt) }
}
impl AsyncSeek for Src {
    fn start_seek(self: Pin<&mut Self>, from: SeekFrom) -> io::Result<()> {
        let this = self.get_mut();
        let (r, _) = pop(&this.sh).unwrap_or(("ok".into(), 0));
        match (r.as_str(), this.resolve(from)) {
            ("ok", Some(t)) => { this.target = Some(t); note(&this.sh, "start_seek", Self::mode_code(from), "ok", 0); Ok(()) }
            ("ok", None) => { note(&this.sh, "start_seek", Self::mode_code(from), "inval", 0); Err(io::Error::new(io::ErrorKind::InvalidInput, "seek before start")) }
            (r, _) => { note(&this.sh, "start_seek", Self::mode_code(from), r, 0); Err(err_of(r)) }
        }
    }
    fn poll_complete(self: Pin<&mut Self>, _cx: &mut Context<'_>) -> Poll<io::Result<u64>> {
        let this = self.get_mut();
        let (r, _) = pop(&this.sh).unwrap_or(("ok".into(), 0));
        note(&this.sh, "poll_complete", 0, &r, 0);
        match r.as_str() {
            "ok" => { if let Some(t) = this.target.take() { this.cur = t; } Poll::Ready(Ok(this.cur)) }
            "pend" => Poll::Pending,
            r => { this.target = None; Poll::Ready(Err(err_of(r))) }
        }
    }
}

/// scripted iterator / stream over a shared queue of items (may be refilled after it returned None)
#[derive(Default)]
struct ItShared { items: VecDeque<u64>, q: VecDeque<(String, usize)>, log: Vec<Value> }
type ISh = Rc<RefCell<ItShared>>;
struct It { sh: ISh }
impl It { fn step(&mut self, f: &str, back: bool) -> Option<u64> { let mut s = self.sh.borrow_mut(); let x = if back { s.items.pop_back() } else { s.items.pop_front() };
    s.log.push(json!({"f": f, "n": 0, "r": if x.is_some() { "item" } else { "none" }, "k": 0})); x } }
impl Iterator for It { type Item = u64; fn next(&mut self) -> Option<u64> { self.step("next", false) } fn size_hint(&self) -> (usize, Option<usize>) { let n = self.sh.borrow().items.len(); (n, Some(n)) } }
impl DoubleEndedIterator for It { fn next_back(&mut self) -> Option<u64> { self.step("next_back", true) } }
impl ExactSizeIterator for It {}
impl futures_core::Stream for It {
    type Item = u64;
    fn poll_next(self: Pin<&mut Self>, _cx: &mut Context<'_>) -> Poll<Option<u64>> {
        let this = self.get_mut();
        let r = this.sh.borrow_mut().q.pop_front().unwrap_or(("ok".into(), 0));
        if r.0 == "pend" { this.sh.borrow_mut().log.push(json!({"f": "poll_next", "n": 0, "r": "pend", "k": 0})); return Poll::Pending; }
        Poll::Ready(this.step("poll_next", false))
    }
}

// ------------------------------------------------------------------------------------------------
// result normalisation

fn zero() -> Value { limbs(0) }
fn ret(k: &str, n: u64) -> Value { json!({"k": k, "n": limbs(n)}) }
fn err_code(e: &io::Error) -> u64 {
    match e.kind() { io::ErrorKind::Other => 1, io::ErrorKind::Interrupted => 2, io::ErrorKind::UnexpectedEof => 3, io::ErrorKind::WriteZero => 4, io::ErrorKind::InvalidData => 5,
                     io::ErrorKind::InvalidInput => 6, io::ErrorKind::WouldBlock => 7, _ => 9 }
}
fn r_usize(r: io::Result<usize>) -> Value { match r { Ok(n) => ret("ok", n as u64), Err(e) => ret("err", err_code(&e)) } }
fn r_unit(r: io::Result<()>) -> Value { match r { Ok(()) => ret("ok", 0), Err(e) => ret("err", err_code(&e)) } }
fn r_u64(r: io::Result<u64>) -> Value { match r { Ok(n) => ret("ok", n), Err(e) => ret("err", err_code(&e)) } }
fn p_usize(r: Poll<io::Result<usize>>) -> Value { match r { Poll::Ready(x) => r_usize(x), Poll::Pending => ret("pend", 0) } }
fn p_unit(r: Poll<io::Result<()>>) -> Value { match r { Poll::Ready(x) => r_unit(x), Poll::Pending => ret("pend", 0) } }
fn p_u64(r: Poll<io::Result<u64>>) -> Value { match r { Poll::Ready(x) => r_u64(x), Poll::Pending => ret("pend", 0) } }
fn r_item(x: Option<u64>) -> Value { match x { Some(v) => ret("item", v), None => ret("none", 0) } }

fn finish_of(name: &str, fm: &str) -> ProgressFinish {
    match name {
        "AndLeave" => ProgressFinish::AndLeave,
        "Abandon" => ProgressFinish::Abandon,
        "WithMessage" => ProgressFinish::WithMessage(fm.to_string().into()),
        "AbandonWithMessage" => ProgressFinish::AbandonWithMessage(fm.to_string().into()),
        _ => ProgressFinish::AndClear,
    }
}
fn new_bar(op: &Value) -> ProgressBar {
    let len = if op["haslen"].as_bool().unwrap_or(false) { Some(u64_of(&op["len"])) } else { None };
    ProgressBar::with_draw_target(len, ProgressDrawTarget::hidden())
        .with_finish(finish_of(op["beh"].as_str().unwrap_or("AndLeave"), op["fm"].as_str().unwrap_or("")))
        .with_position(u64_of(&op["pos0"]))
}
fn panic_msg(e: Box<dyn std::any::Any + Send>) -> String {
    let m = e.downcast_ref::<String>().cloned().or_else(|| e.downcast_ref::<&str>().map(|s| s.to_string())).unwrap_or_else(|| "panic".into());
    if m.is_empty() { "panic".into() } else { m }
}
fn seek_from(op: &Value) -> SeekFrom {
    let d = op["d"].as_i64().unwrap_or(0);
    match op["mode"].as_str().unwrap_or("start") { "cur" => SeekFrom::Current(d), "end" => SeekFrom::End(d), _ => SeekFrom::Start(u64_of(&op["off"])) }
}
fn resps(op: &Value) -> VecDeque<(String, usize)> {
    op["rs"].as_array().map(|a| a.iter().map(|r| (r["r"].as_str().unwrap_or("ok").to_string(), r["k"].as_u64().unwrap_or(0) as usize)).collect()).unwrap_or_default()
}

// ------------------------------------------------------------------------------------------------
// sequential families

/// run one I/O operation on any object with the four sync and four async capabilities
fn io_op<T>(o: &mut T, op: &Value) -> (Value, Vec<u8>)
where T: Read + BufRead + Write + Seek + AsyncRead + AsyncWrite + AsyncBufRead + AsyncSeek + Unpin {
    let name = op["op"].as_str().unwrap_or("");
    let n = op["n"].as_u64().unwrap_or(0) as usize;
    let n2 = op["n2"].as_u64().unwrap_or(0) as usize;
    let data: Vec<u8> = (0..n + n2).map(|i| b'A' + (i % 26) as u8).collect();
    let mut cx = Context::from_waker(Waker::noop());
    match name {
        "read" => { let mut b = vec![0u8; n]; let r = Read::read(o, &mut b); (r_usize(r), b) }
        "read_vectored" => { let (mut b1, mut b2) = (vec![0u8; n], vec![0u8; n2]); let r = { let mut v = [IoSliceMut::new(&mut b1), IoSliceMut::new(&mut b2)]; Read::read_vectored(o, &mut v) }; b1.extend(b2); (r_usize(r), b1) }
        "read_exact" => { let mut b = vec![0u8; n]; let r = Read::read_exact(o, &mut b); let ok = r.is_ok(); (r_unit(r), if ok { b } else { vec![] }) }
        "read_to_end" => { let mut b = vec![]; let r = Read::read_to_end(o, &mut b); (r_usize(r), b) }
        "read_to_string" => { let mut s = String::new(); let r = Read::read_to_string(o, &mut s); (r_usize(r), s.into_bytes()) }
        "fill_buf" => { match BufRead::fill_buf(o) { Ok(b) => (ret("ok", b.len() as u64), b.to_vec()), Err(e) => (ret("err", err_code(&e)), vec![]) } }
        "consume" => { BufRead::consume(o, op["amt"].as_u64().unwrap_or(0) as usize); (ret("ok", 0), vec![]) }
        "read_until" => { let mut b = vec![]; let r = BufRead::read_until(o, op["delim"].as_u64().unwrap_or(0) as u8, &mut b); (r_usize(r), b) }
        "write" => (r_usize(Write::write(o, &data)), vec![]),
        "write_vectored" => (r_usize(Write::write_vectored(o, &[IoSlice::new(&data[..n]), IoSlice::new(&data[n..])])), vec![]),
        "write_all" => (r_unit(Write::write_all(o, &data)), vec![]),
        "flush" => (r_unit(Write::flush(o)), vec![]),
        "seek" => (r_u64(Seek::seek(o, seek_from(op))), vec![]),
        "rewind" => (r_unit(Seek::rewind(o)), vec![]),
        "seek_relative" => (r_unit(Seek::seek_relative(o, op["d"].as_i64().unwrap_or(0))), vec![]),
        "stream_position" => (r_u64(Seek::stream_position(o)), vec![]),
        // the caller's ReadBuf already holds one byte: only the newly filled part counts
        "poll_read" => { let mut b = vec![0u8; n + 1]; let (r, k) = { let mut rb = ReadBuf::new(&mut b); rb.put_slice(b"#"); let r = Pin::new(&mut *o).poll_read(&mut cx, &mut rb); (r, rb.filled().len() - 1) };
                         b.truncate(k + 1); (match r { Poll::Ready(Ok(())) => ret("ok", k as u64), Poll::Ready(Err(e)) => ret("err", err_code(&e)), Poll::Pending => ret("pend", 0) }, b) }
        "poll_write" => (p_usize(Pin::new(&mut *o).poll_write(&mut cx, &data)), vec![]),
        "poll_write_vectored" => (p_usize(Pin::new(&mut *o).poll_write_vectored(&mut cx, &[IoSlice::new(&data[..n]), IoSlice::new(&data[n..])])), vec![]),
        "poll_flush" => (p_unit(Pin::new(&mut *o).poll_flush(&mut cx)), vec![]),
        "poll_shutdown" => (p_unit(Pin::new(&mut *o).poll_shutdown(&mut cx)), vec![]),
        "poll_fill_buf" => { match Pin::new(&mut *o).poll_fill_buf(&mut cx) { Poll::Ready(Ok(b)) => (ret("ok", b.len() as u64), b.to_vec()), Poll::Ready(Err(e)) => (ret("err", err_code(&e)), vec![]), Poll::Pending => (ret("pend", 0), vec![]) } }
        "aconsume" => { AsyncBufRead::consume(Pin::new(&mut *o), op["amt"].as_u64().unwrap_or(0) as usize); (ret("ok", 0), vec![]) }
        "start_seek" => (r_unit(Pin::new(&mut *o).start_seek(seek_from(op))), vec![]),
        "poll_complete" => (p_u64(Pin::new(&mut *o).poll_complete(&mut cx)), vec![]),
        _ => (ret("skip", 0), vec![]),
    }
}

fn it_op<T>(o: &mut T, op: &Value) -> (Value, i64, i64)
where T: Iterator<Item = u64> + DoubleEndedIterator + ExactSizeIterator + futures_core::Stream<Item = u64> + Unpin {
    let mut cx = Context::from_waker(Waker::noop());
    match op["op"].as_str().unwrap_or("") {
        "next" => (r_item(Iterator::next(o)), 0, -1),
        "next_back" => (r_item(DoubleEndedIterator::next_back(o)), 0, -1),
        "nth" => (r_item(Iterator::nth(o, op["k"].as_u64().unwrap_or(0) as usize)), 0, -1),
        "drain" => { let mut c = 0u64; for _ in &mut *o { c += 1; } (ret("ok", c), 0, -1) }
        "len" => (ret("ok", ExactSizeIterator::len(o) as u64), 0, -1),
        "size_hint" => { let (lo, hi) = Iterator::size_hint(o); (ret("ok", 0), lo.min(1 << 30) as i64, hi.map(|h| h.min(1 << 30) as i64).unwrap_or(-1)) }
        "poll_next" => (match Pin::new(&mut *o).poll_next(&mut cx) { Poll::Ready(x) => r_item(x), Poll::Pending => ret("pend", 0) }, 0, -1),
        _ => (ret("skip", 0), 0, -1),
    }
}

enum World {
    None,
    Io { w: ProgressBarIter<Src>, wsh: Sh, t: Src, tsh: Sh },
    It { w: ProgressBarIter<It>, wsh: ISh, t: It, tsh: ISh },
}

fn base_rec(op: &Value, h: &Value, i: usize) -> Map<String, Value> {
    let mut rec = op.as_object().cloned().unwrap_or_default();
    rec.insert("h".into(), h.clone());
    rec.insert("i".into(), json!(i));
    rec.insert("panic".into(), json!(""));
    rec.insert("ret".into(), ret("none", 0));
    rec.insert("tret".into(), ret("none", 0));
    rec.insert("same".into(), json!(true));
    rec.insert("calls".into(), json!([]));
    rec.insert("tcalls_same".into(), json!(true));
    rec.insert("lo".into(), json!(0));
    rec.insert("hi".into(), json!(-1));
    rec.insert("rem".into(), json!(0));
    rec
}
fn observe(rec: &mut Map<String, Value>, pb: &ProgressBar) {
    let r = catch_unwind(AssertUnwindSafe(|| (pb.position(), pb.is_finished(), pb.message())));
    match r {
        Ok((p, f, m)) => { rec.insert("pos".into(), limbs(p)); rec.insert("fin".into(), json!(f)); rec.insert("msg".into(), json!(m)); }
        Err(e) => { rec.insert("pos".into(), zero()); rec.insert("fin".into(), json!(false)); rec.insert("msg".into(), json!("")); rec.insert("panic".into(), json!(format!("getter: {}", panic_msg(e)))); }
    }
}

fn run_seq(hist: &Value, out: &mut dyn Write) {
    let h = hist["h"].clone();
    let fam = hist["fam"].as_str().unwrap_or("io");
    let mut world = World::None;
    let mut pb = ProgressBar::hidden();
    for (idx, op) in hist["ops"].as_array().cloned().unwrap_or_default().iter().enumerate() {
        let name = op["op"].as_str().unwrap_or("");
        let mut rec = base_rec(op, &h, idx + 1);
        let r = catch_unwind(AssertUnwindSafe(|| {
            let mut q = Map::new();
            match name {
                "new" => {
                    pb = new_bar(op);
                    if fam == "iter" || fam == "stream" {
                        let (wsh, tsh): (ISh, ISh) = Default::default();
                        let n = op["items"].as_u64().unwrap_or(0);
                        wsh.borrow_mut().items.extend(0..n);
                        tsh.borrow_mut().items.extend(0..n);
                        let w = if fam == "iter" { pb.wrap_iter(It { sh: wsh.clone() }) } else { pb.wrap_stream(It { sh: wsh.clone() }) };
                        world = World::It { w, wsh, t: It { sh: tsh.clone() }, tsh };
                    } else {
                        let (ws, wsh) = Src::new();
                        let (t, tsh) = Src::new();
                        let w = match fam { "aio" => pb.wrap_async_read(ws), "wr" => pb.wrap_write(ws), _ => pb.wrap_read(ws) };
                        world = World::Io { w, wsh, t, tsh };
                    }
                }
                "poke" => { pb.set_position(1); pb.set_message("z"); }
                "reset_bar" => { pb.reset(); }
                "refill" => { if let World::It { wsh, tsh, .. } = &world { let k = op["k"].as_u64().unwrap_or(1); let base = 1000 * (idx as u64 + 1);
                    wsh.borrow_mut().items.extend(base..base + k); tsh.borrow_mut().items.extend(base..base + k); } }
                _ => match &mut world {
                    World::Io { w, wsh, t, tsh } => {
                        { let mut s = wsh.borrow_mut(); s.q = resps(op); s.log.clear(); }
                        { let mut s = tsh.borrow_mut(); s.q = resps(op); s.log.clear(); }
                        let (rv, data) = io_op(w, op);
                        q.insert("ret".into(), rv);
                        q.insert("calls".into(), json!(wsh.borrow().log));
                        let (tv, tdata) = io_op(t, op);
                        q.insert("tret".into(), tv);
                        q.insert("same".into(), json!(data == tdata && wsh.borrow().wrote == tsh.borrow().wrote));
                        q.insert("tcalls_same".into(), json!(wsh.borrow().log == tsh.borrow().log));
                    }
                    World::It { w, wsh, t, tsh } => {
                        { let mut s = wsh.borrow_mut(); s.q = resps(op); s.log.clear(); }
                        { let mut s = tsh.borrow_mut(); s.q = resps(op); s.log.clear(); }
                        let rem = wsh.borrow().items.len();
                        let (rv, lo, hi) = it_op(w, op);
                        q.insert("ret".into(), rv);
                        q.insert("calls".into(), json!(wsh.borrow().log));
                        q.insert("lo".into(), json!(lo)); q.insert("hi".into(), json!(hi)); q.insert("rem".into(), json!(rem));
                        let (tv, _, _) = it_op(t, op);
                        q.insert("tret".into(), tv);
                        q.insert("same".into(), json!(wsh.borrow().items == tsh.borrow().items));
                        q.insert("tcalls_same".into(), json!(wsh.borrow().log == tsh.borrow().log));
                    }
                    World::None => {}
                },
            }
            q
        }));
        match r {
            Ok(q) => { for (k, v) in q { rec.insert(k, v); } }
            Err(e) => { rec.insert("panic".into(), json!(panic_msg(e))); }
        }
        observe(&mut rec, &pb);
        writeln!(out, "{}", Value::Object(rec)).unwrap();
    }
}

// ------------------------------------------------------------------------------------------------
// rayon: the plumbing driven by the behaviour

struct ParScript { ops: Vec<Value>, h: Value, pb: ProgressBar, recs: Mutex<Vec<Map<String, Value>>>, next: AtomicUsize, rev: bool, unindexed: bool }
impl ParScript {
    /// the operations between `par_new` and `done`, handed out one at a time
    fn take(&self) -> Option<(usize, Value)> {
        let i = self.next.load(Ordering::SeqCst);
        if i >= self.ops.len() || self.ops[i]["op"] == "done" || self.ops[i]["op"] == "pool" { return None; }
        self.next.store(i + 1, Ordering::SeqCst);
        Some((i, self.ops[i].clone()))
    }
    fn log(&self, i: usize, op: &Value, got: i64, ok: bool) {
        let mut rec = base_rec(op, &self.h, i + 1);
        rec.insert("got".into(), json!(got));
        rec.insert("ok".into(), json!(ok));
        rec.insert("early".into(), json!(false));
        observe(&mut rec, &self.pb);
        self.recs.lock().unwrap().push(rec);
    }
}

/// the base consumer of the scripted drives: collects the items; its folders report full() after PAR_CAP items (0 = never),
/// and PAR_TAKEN counts every item a base folder really took
static PAR_CAP: AtomicUsize = AtomicUsize::new(0);
static PAR_TAKEN: AtomicUsize = AtomicUsize::new(0);
struct Collect;
struct CollectFolder(Vec<usize>);
struct Concat;
impl Reducer<Vec<usize>> for Concat { fn reduce(self, mut l: Vec<usize>, r: Vec<usize>) -> Vec<usize> { l.extend(r); l } }
impl Folder<usize> for CollectFolder {
    type Result = Vec<usize>;
    fn consume(mut self, item: usize) -> Self { self.0.push(item); PAR_TAKEN.fetch_add(1, Ordering::SeqCst); self }
    fn complete(self) -> Vec<usize> { self.0 }
    fn full(&self) -> bool { let c = PAR_CAP.load(Ordering::SeqCst); c > 0 && self.0.len() >= c }
}
impl Consumer<usize> for Collect {
    type Folder = CollectFolder; type Reducer = Concat; type Result = Vec<usize>;
    fn split_at(self, _index: usize) -> (Self, Self, Concat) { (Collect, Collect, Concat) }
    fn into_folder(self) -> CollectFolder { CollectFolder(vec![]) }
    fn full(&self) -> bool { false }
}
impl UnindexedConsumer<usize> for Collect { fn split_off_left(&self) -> Self { Collect } fn to_reducer(&self) -> Concat { Concat } }

enum CNode<C: Consumer<usize>> { Leaf(C), Folding(C::Folder), Done(C::Result), Split(C::Reducer), Gone }

fn reduce_tree<C: Consumer<usize>>(nodes: &mut HashMap<u64, CNode<C>>, id: u64) -> Option<C::Result> {
    match nodes.remove(&id).unwrap_or(CNode::Gone) {
        CNode::Split(red) => { let l = reduce_tree(nodes, 2 * id)?; let r = reduce_tree(nodes, 2 * id + 1)?; Some(red.reduce(l, r)) }
        CNode::Done(r) => Some(r),
        CNode::Folding(f) => Some(f.complete()),
        CNode::Leaf(c) => Some(c.into_folder().complete()),
        CNode::Gone => None,
    }
}

/// the scripted parallel source: drives whatever consumer / producer callback it is given along the behaviour
struct Source { n: usize, sc: Arc<ParScript> }
impl Source {
    fn run_consumer<C: Consumer<usize>>(self, consumer: C, split: &dyn Fn(C, usize) -> (C, C, C::Reducer)) -> C::Result {
        let sc = self.sc.clone();
        let mut nodes: HashMap<u64, CNode<C>> = HashMap::new();
        nodes.insert(1, CNode::Leaf(consumer));
        while let Some((i, op)) = sc.take() {
            let id = op["node"].as_u64().unwrap_or(1);
            let cur = nodes.remove(&id).unwrap_or(CNode::Gone);
            match (op["op"].as_str().unwrap_or(""), cur) {
                ("split", CNode::Leaf(c)) => { let (l, r, red) = split(c, op["at"].as_u64().unwrap_or(1) as usize); nodes.insert(2 * id, CNode::Leaf(l)); nodes.insert(2 * id + 1, CNode::Leaf(r)); nodes.insert(id, CNode::Split(red)); sc.log(i, &op, -1, true); }
                ("item", CNode::Leaf(c)) => { let f = c.into_folder().consume(op["want"].as_u64().unwrap_or(0) as usize); nodes.insert(id, CNode::Folding(f)); sc.log(i, &op, op["want"].as_i64().unwrap_or(0), true); }
                ("item", CNode::Folding(f)) => { let f = f.consume(op["want"].as_u64().unwrap_or(0) as usize); nodes.insert(id, CNode::Folding(f)); sc.log(i, &op, op["want"].as_i64().unwrap_or(0), true); }
                ("items", cur @ (CNode::Leaf(_) | CNode::Folding(_))) => {
                    // Folder::consume_iter with k items at once; what the base folder took is counted by the base folder itself
                    let f = match cur { CNode::Leaf(c) => c.into_folder(), CNode::Folding(f) => f, _ => unreachable!() };
                    let first = op["want"].as_u64().unwrap_or(0) as usize;
                    let k = op["k"].as_u64().unwrap_or(0) as usize;
                    let before = PAR_TAKEN.load(Ordering::SeqCst);
                    let f = f.consume_iter(first..first + k);
                    let got = PAR_TAKEN.load(Ordering::SeqCst) - before;
                    nodes.insert(id, CNode::Folding(f));
                    sc.log(i, &op, got as i64, true);
                }
                ("end", CNode::Leaf(c)) => { nodes.insert(id, CNode::Done(c.into_folder().complete())); sc.log(i, &op, -1, true); }
                ("end", CNode::Folding(f)) => { nodes.insert(id, CNode::Done(f.complete())); sc.log(i, &op, -1, true); }
                (_, other) => { nodes.insert(id, other); sc.log(i, &op, -1, false); }
            }
        }
        reduce_tree(&mut nodes, 1).expect("incomplete split tree")
    }
}
impl ParallelIterator for Source {
    type Item = usize;
    fn drive_unindexed<C: UnindexedConsumer<usize>>(self, consumer: C) -> C::Result {
        self.run_consumer(consumer, &|c: C, _at| { let l = c.split_off_left(); let red = c.to_reducer(); (l, c, red) })
    }
    fn opt_len(&self) -> Option<usize> { Some(self.n) }
}
impl IndexedParallelIterator for Source {
    fn len(&self) -> usize { self.n }
    fn drive<C: Consumer<usize>>(self, consumer: C) -> C::Result { self.run_consumer(consumer, &|c: C, at| c.split_at(at)) }
    fn with_producer<CB: ProducerCallback<usize>>(self, callback: CB) -> CB::Output { callback.callback(RangeProducer(0..self.n)) }
}
struct RangeProducer(std::ops::Range<usize>);
impl Producer for RangeProducer {
    type Item = usize; type IntoIter = std::ops::Range<usize>;
    fn into_iter(self) -> Self::IntoIter { self.0 }
    fn split_at(self, index: usize) -> (Self, Self) { let m = self.0.start + index; (RangeProducer(self.0.start..m), RangeProducer(m..self.0.end)) }
}

enum PNode<P: Producer> { Leaf(P), Iter(P::IntoIter), Gone }
struct DriveProducer { sc: Arc<ParScript> }
impl ProducerCallback<usize> for DriveProducer {
    type Output = Vec<usize>;
    fn callback<P: Producer<Item = usize>>(self, producer: P) -> Vec<usize> {
        let sc = self.sc;
        let mut nodes: HashMap<u64, PNode<P>> = HashMap::new();
        let mut seen = vec![];
        nodes.insert(1, PNode::Leaf(producer));
        while let Some((i, op)) = sc.take() {
            let id = op["node"].as_u64().unwrap_or(1);
            let cur = nodes.remove(&id).unwrap_or(PNode::Gone);
            match (op["op"].as_str().unwrap_or(""), cur) {
                ("split", PNode::Leaf(p)) => { let (l, r) = p.split_at(op["at"].as_u64().unwrap_or(1) as usize); nodes.insert(2 * id, PNode::Leaf(l)); nodes.insert(2 * id + 1, PNode::Leaf(r)); sc.log(i, &op, -1, true); }
                ("item", cur) | ("end", cur) => {
                    let mut it = match cur { PNode::Leaf(p) => p.into_iter(), PNode::Iter(it) => it, PNode::Gone => { sc.log(i, &op, -1, false); continue; } };
                    let x = if sc.rev { it.next_back() } else { it.next() };
                    if let Some(v) = x { seen.push(v); }
                    nodes.insert(id, PNode::Iter(it));
                    sc.log(i, &op, x.map(|v| v as i64).unwrap_or(-1), true);
                }
                (_, other) => { nodes.insert(id, other); sc.log(i, &op, -1, false); }
            }
        }
        seen
    }
}

fn run_par(hist: &Value, out: &mut dyn Write) {
    let h = hist["h"].clone();
    let ops = hist["ops"].as_array().cloned().unwrap_or_default();
    let mut pb = ProgressBar::hidden();
    let mut sc: Option<Arc<ParScript>> = None;
    let mut i = 0;
    while i < ops.len() {
        let op = &ops[i];
        let name = op["op"].as_str().unwrap_or("");
        let mut rec = base_rec(op, &h, i + 1);
        rec.insert("got".into(), json!(-1)); rec.insert("ok".into(), json!(true)); rec.insert("early".into(), json!(false));
        match name {
            "par_new" => {
                let r = catch_unwind(AssertUnwindSafe(|| new_bar(op)));
                match r { Ok(b) => pb = b, Err(e) => { rec.insert("panic".into(), json!(panic_msg(e))); } }
                let path = op["path"].as_str().unwrap_or("consumer");
                let s = Arc::new(ParScript { ops: ops.clone(), h: h.clone(), pb: pb.clone(), recs: Mutex::new(vec![]), next: AtomicUsize::new(i + 1), rev: path == "producer_rev", unindexed: path == "unindexed" });
                let n = op["n"].as_u64().unwrap_or(0) as usize;
                let cap = op["cap"].as_u64().unwrap_or(0) as usize;
                PAR_CAP.store(cap, Ordering::SeqCst);
                PAR_TAKEN.store(0, Ordering::SeqCst);
                observe(&mut rec, &pb);
                writeln!(out, "{}", Value::Object(rec)).unwrap();
                // run the whole scripted drive; the records of the inner steps are collected by the script
                let s2 = s.clone();
                let bar = pb.clone();
                let r = catch_unwind(AssertUnwindSafe(move || {
                    let wrapped = Source { n, sc: s2.clone() }.progress_with(bar);
                    if path.starts_with("producer") { let mut v = wrapped.with_producer(DriveProducer { sc: s2.clone() }); v.sort(); v }
                    else if s2.unindexed { let mut v = wrapped.drive_unindexed(Collect); v.sort(); v }
                    else { wrapped.drive(Collect) }
                }));
                let recs = std::mem::take(&mut *s.recs.lock().unwrap());
                for r in recs { writeln!(out, "{}", Value::Object(r)).unwrap(); }
                i = s.next.load(Ordering::SeqCst);
                // the `done` record: the result seen by the caller vs the source's items
                let dop = ops.get(i).cloned().unwrap_or(json!({"op": "done"}));
                let mut drec = base_rec(&dop, &h, i + 1);
                drec.insert("op".into(), json!("done"));
                drec.insert("got".into(), json!(-1)); drec.insert("ok".into(), json!(true)); drec.insert("early".into(), json!(false));
                match r {
                    // with folders that fill up the result is what the base folders took, otherwise all the items in order
                    Ok(v) => { drec.insert("same".into(), json!(if cap > 0 { v.len() == PAR_TAKEN.load(Ordering::SeqCst) } else { v == (0..n).collect::<Vec<usize>>() })); }
                    Err(e) => { drec.insert("panic".into(), json!(panic_msg(e))); }
                }
                observe(&mut drec, &pb);
                PAR_CAP.store(0, Ordering::SeqCst);
                sc = Some(s);
                // a behaviour cut short (replay of a prefix) has no `done`: nothing to compare then
                let has_done = ops.get(i).map(|o| o["op"] == "done").unwrap_or(false);
                if has_done || drec["panic"] != "" { writeln!(out, "{}", Value::Object(drec)).unwrap(); }
                if has_done { i += 1; }
                continue;
            }
            "pool" => {
                let n = op["n"].as_u64().unwrap_or(0) as usize;
                let adaptor = op["adaptor"].as_str().unwrap_or("plain").to_string();
                let r = catch_unwind(AssertUnwindSafe(|| {
                    let bar = new_bar(op);
                    let pool = match rayon::ThreadPoolBuilder::new().num_threads(op["threads"].as_u64().unwrap_or(3) as usize).build() { Ok(p) => p, Err(_) => return None };   // no threads available: not the library's fault
                    let started = AtomicUsize::new(0);
                    let early = AtomicBool::new(false);
                    let sum = AtomicUsize::new(0);
                    let f = |x: usize| { started.fetch_add(1, Ordering::SeqCst); sum.fetch_add(x + 1, Ordering::SeqCst); std::thread::yield_now();
                                         if bar.is_finished() && started.load(Ordering::SeqCst) < n { early.store(true, Ordering::SeqCst); } };
                    pool.install(|| {
                        let src = (0..n).into_par_iter().with_max_len(1);
                        match adaptor.as_str() {
                            "rev" => src.progress_with(bar.clone()).rev().for_each(f),
                            "enumerate" => src.progress_with(bar.clone()).enumerate().for_each(|(_, x)| f(x)),
                            "zip" => src.progress_with(bar.clone()).zip((0..n).into_par_iter()).for_each(|(x, _)| f(x)),
                            "filter" => src.filter(|x| x % 1 == 0).progress_with(bar.clone()).for_each(f),   // unindexed path
                            _ => src.progress_with(bar.clone()).for_each(f),
                        }
                    });
                    Some((bar, early.load(Ordering::SeqCst), sum.load(Ordering::SeqCst) == n * (n + 1) / 2))
                }));
                match r {
                    Ok(None) => { rec.insert("op".into(), json!("pool_skipped")); observe(&mut rec, &pb); }
                    Ok(Some((bar, early, same))) => { rec.insert("early".into(), json!(early)); rec.insert("same".into(), json!(same)); observe(&mut rec, &bar); }
                    Err(e) => { rec.insert("panic".into(), json!(panic_msg(e))); observe(&mut rec, &pb); }
                }
                writeln!(out, "{}", Value::Object(rec)).unwrap();
            }
            _ => { rec.insert("ok".into(), json!(false)); observe(&mut rec, &pb); writeln!(out, "{}", Value::Object(rec)).unwrap(); }
        }
        i += 1;
    }
    drop(sc);
}

pub fn run_history(hist: &Value, out: &mut dyn Write) {
    writeln!(out, "{}", json!({"h": hist["h"], "i": 0, "op": "init", "panic": ""})).unwrap();
    if hist["fam"] == "par" { run_par(hist, out) } else { run_seq(hist, out) }
}
