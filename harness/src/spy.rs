//! Spy terminal: a `TermLike` that records every output call, answers size queries from
//! configurable values, and can be told to fail the k-th output call (C18).
use std::io;
use std::sync::{Arc, Mutex};
use serde_json::{json, Value};
use indicatif::TermLike;
use crate::tok;

#[derive(Debug, Clone)]
pub enum Call { Up(usize), Down(usize), Left(usize), Right(usize), Line(String), Str(String), Clear, Flush }

#[derive(Debug)]
pub struct SpyInner {
    pub w: u16,
    pub h: u16,
    pub calls: Vec<(Call, bool)>, // (call, made by user closure)
    pub queries: usize,
    pub ncalls: usize,           // output calls since creation (1-based index of the next is ncalls+1)
    pub fail_at: Option<usize>,  // fail the output call with this 1-based index
    pub fail_sticky: bool,       // ... and all later ones
    pub user: bool,
    pub failed: usize,
}

#[derive(Debug, Clone)]
pub struct Spy(pub Arc<Mutex<SpyInner>>);

impl Spy {
    pub fn new(w: u16, h: u16) -> Self {
        Spy(Arc::new(Mutex::new(SpyInner { w, h, calls: vec![], queries: 0, ncalls: 0, fail_at: None, fail_sticky: false, user: false, failed: 0 })))
    }
    fn out(&self, c: Call) -> io::Result<()> {
        let mut g = self.0.lock().unwrap_or_else(|e| e.into_inner());
        g.ncalls += 1;
        let n = g.ncalls;
        if !g.user {
            if let Some(k) = g.fail_at {
                if n == k || (g.fail_sticky && n > k) {
                    g.failed += 1;
                    // the kind of the injected error alternates with the index of the failing call: Other / Interrupted (an interrupted call is still a failed call)
                    return Err(io::Error::new(if k % 2 == 0 { io::ErrorKind::Interrupted } else { io::ErrorKind::Other }, "injected terminal failure"));
                }
            }
        }
        let u = g.user;
        g.calls.push((c, u));
        Ok(())
    }
    pub fn set_user(&self, u: bool) { self.0.lock().unwrap_or_else(|e| e.into_inner()).user = u; }
    pub fn set_size(&self, w: u16, h: u16) { let mut g = self.0.lock().unwrap_or_else(|e| e.into_inner()); g.w = w; g.h = h; }
    /// Take the calls recorded since the last take, as JSON, plus the number of size queries.
    pub fn take(&self) -> (Value, usize) {
        let mut g = self.0.lock().unwrap_or_else(|e| e.into_inner());
        let calls = std::mem::take(&mut g.calls);
        let q = std::mem::take(&mut g.queries);
        let v: Vec<Value> = calls.iter().map(|(c, u)| call_json(c, *u)).collect();
        (Value::Array(v), q)
    }
    pub fn total_calls(&self) -> usize { self.0.lock().unwrap_or_else(|e| e.into_inner()).ncalls }
}

pub fn call_json(c: &Call, user: bool) -> Value {
    let u = if user { 1 } else { 0 };
    match c {
        Call::Up(n) => json!({"k":"up","n":n,"c":[],"u":u}),
        Call::Down(n) => json!({"k":"down","n":n,"c":[],"u":u}),
        Call::Left(n) => json!({"k":"left","n":n,"c":[],"u":u}),
        Call::Right(n) => json!({"k":"right","n":n,"c":[],"u":u}),
        Call::Line(s) => json!({"k":"line","n":0,"c":tok::string_to_cells(s),"u":u}),
        Call::Str(s) => json!({"k":"str","n":0,"c":tok::string_to_cells(s),"u":u}),
        Call::Clear => json!({"k":"clear","n":0,"c":[],"u":u}),
        Call::Flush => json!({"k":"flush","n":0,"c":[],"u":u}),
    }
}

impl TermLike for Spy {
    fn width(&self) -> u16 { let mut g = self.0.lock().unwrap_or_else(|e| e.into_inner()); g.queries += 1; g.w }
    fn height(&self) -> u16 { let mut g = self.0.lock().unwrap_or_else(|e| e.into_inner()); g.queries += 1; g.h }
    fn move_cursor_up(&self, n: usize) -> io::Result<()> { self.out(Call::Up(n)) }
    fn move_cursor_down(&self, n: usize) -> io::Result<()> { self.out(Call::Down(n)) }
    fn move_cursor_right(&self, n: usize) -> io::Result<()> { self.out(Call::Right(n)) }
    fn move_cursor_left(&self, n: usize) -> io::Result<()> { self.out(Call::Left(n)) }
    fn write_line(&self, s: &str) -> io::Result<()> { self.out(Call::Line(s.to_string())) }
    fn write_str(&self, s: &str) -> io::Result<()> { self.out(Call::Str(s.to_string())) }
    fn clear_line(&self) -> io::Result<()> { self.out(Call::Clear) }
    fn flush(&self) -> io::Result<()> { self.out(Call::Flush) }
}
