//! Controlled scheduler for C08 (and the schedule clauses of C07): runs a small multi-threaded
//! program against the real library with every synchronisation step (lock, unlock, condvar wait and
//! notify, spawn, join, atomic access) routed through `indicatif::verif_hooks`. Exactly one logical
//! thread runs at a time; at each step the scheduler picks the next thread following the given
//! schedule (a sequence of thread ids, produced by TLC from spec/Sync.tla) among the threads whose
//! pending step is enabled. A state in which some caller has not finished and no step is enabled is a
//! deadlock of the real code; one in which only a ticker's time-out could unblock a caller is a
//! dependence on the tick interval.
use std::collections::{BTreeMap, BTreeSet};
use std::io::Write;
use std::sync::{Arc, Condvar, Mutex};
use std::time::{Duration, Instant};

use indicatif::verif_hooks::{self as vh, Event, Observer, Op};
use indicatif::{MultiProgress, ProgressBar, ProgressDrawTarget, ProgressStyle};
use serde_json::{json, Value};

use crate::spy::Spy;

#[derive(Clone, Debug)]
enum Pending {
    None,
    Step(Event),
    CvWait(usize), // waiting on condvar id (mutex already released)
    CvWaitForever(usize), // the same without a time-out
}

#[derive(Clone, Debug, PartialEq)]
enum TState { Running, Parked, Done }

struct Th {
    state: TState,
    pending: Pending,
    grant: Option<bool>, // Some(timed_out) for cv waits, Some(false) otherwise
    is_ticker: bool,
}

struct Core {
    threads: BTreeMap<usize, Th>,            // logical id -> thread
    os2id: std::collections::HashMap<std::thread::ThreadId, usize>,
    spawn2id: BTreeMap<usize, usize>,         // hooks thread id -> logical id (100 + k)
    next_ticker: usize,
    mutex_owner: BTreeMap<usize, usize>,      // mutex obj -> logical thread
    rw_writer: BTreeMap<usize, usize>,
    rw_readers: BTreeMap<usize, BTreeSet<usize>>,
    notified: BTreeSet<usize>,                // logical threads that were waiting on a condvar when it was notified (a notification
                                              // with no waiter is lost, as with a real condition variable)
    exited: BTreeSet<usize>,                  // hooks thread ids that have exited
    labels: BTreeMap<usize, &'static str>,
    log: Vec<Value>,
    calls: BTreeMap<usize, String>,           // logical id -> current API call
}

pub struct Sched {
    core: Mutex<Core>,
    cv: Condvar,
    atomics: bool, // interleave at atomic load/store/rmw granularity too (C07)
    wpref: bool,   // write-preferring RwLock (the futex implementation behind std::sync::RwLock): a reader does not get in while a writer is waiting
}

fn short(label: &str) -> &'static str {
    if label.contains("BarState") { "S" }
    else if label.contains("Ticker") { "K" }
    else if label.contains("MultiState") { "M" }
    else if label == "bool" { "F" }
    else if label == "condvar" { "CV" }
    else if label == "u64" { "A" }
    else if label == "thread" { "T" }
    else { "X" }
}

impl Sched {
    fn me(&self, core: &Core) -> Option<usize> { core.os2id.get(&std::thread::current().id()).copied() }

    fn park(&self, pending: Pending) -> bool {
        let mut core = self.core.lock().unwrap();
        let id = match self.me(&core) { Some(i) => i, None => return false };
        {
            let t = core.threads.get_mut(&id).unwrap();
            t.state = TState::Parked;
            t.pending = pending;
            t.grant = None;
        }
        self.cv.notify_all();
        loop {
            if let Some(g) = core.threads.get(&id).unwrap().grant {
                let t = core.threads.get_mut(&id).unwrap();
                t.state = TState::Running;
                t.pending = Pending::None;
                t.grant = None;
                return g;
            }
            core = self.cv.wait(core).unwrap();
        }
    }
}

impl Observer for Sched {
    fn event(&self, ev: &Event) {
        // thread registration for threads spawned by the library
        if ev.op == Op::Start {
            let mut core = self.core.lock().unwrap();
            let lid = *core.spawn2id.get(&ev.obj).unwrap_or(&(100 + ev.obj));
            core.os2id.insert(std::thread::current().id(), lid);
            core.threads.entry(lid).or_insert(Th { state: TState::Running, pending: Pending::None, grant: None, is_ticker: true });
        }
        if ev.before {
            if ev.op == Op::Spawn {
                let mut core = self.core.lock().unwrap();
                let lid = 100 + core.next_ticker;
                core.next_ticker += 1;
                core.spawn2id.insert(ev.obj, lid);
            }
            // a step that is about to happen: wait for the scheduler
            let known = { let core = self.core.lock().unwrap(); self.me(&core).is_some() };
            let is_atomic = matches!(ev.op, Op::AtomicLoad | Op::AtomicStore | Op::AtomicRmw);
            if known && (!is_atomic || self.atomics) { self.park(Pending::Step(ev.clone())); }
            if is_atomic && !self.atomics { return; }
            if ev.op == Op::Spawn {
                // granted: the child exists from now on (it parks at its Start step)
                let mut core = self.core.lock().unwrap();
                let lid = core.spawn2id[&ev.obj];
                core.threads.insert(lid, Th { state: TState::Running, pending: Pending::None, grant: None, is_ticker: true });
            }
            // effects that have no After event
            let mut core = self.core.lock().unwrap();
            let me = self.me(&core).unwrap_or(999);
            match ev.op {
                Op::CvNotify => {
                    let waiters: Vec<usize> = core.threads.iter().filter(|(_, t)| t.state == TState::Parked
                        && matches!(t.pending, Pending::CvWait(cv) | Pending::CvWaitForever(cv) if cv == ev.obj)).map(|(i, _)| *i).collect();
                    if ev.arg == 1 { for w in waiters { core.notified.insert(w); } } else if let Some(w) = waiters.first() { core.notified.insert(*w); }
                }
                _ => {}
            }
            let call = core.calls.get(&me).cloned().unwrap_or_default();
            core.log.push(json!({"t": me, "k": format!("{:?}", ev.op), "o": short(ev.label), "id": ev.obj, "arg": ev.arg, "call": call}));
            core.labels.insert(ev.obj, short(ev.label));
        } else {
            let mut core = self.core.lock().unwrap();
            let me = self.me(&core).unwrap_or(999);
            match ev.op {
                Op::Lock => { core.mutex_owner.insert(ev.obj, me); }
                Op::Unlock => { core.mutex_owner.remove(&ev.obj); }
                Op::Read => { core.rw_readers.entry(ev.obj).or_default().insert(me); }
                Op::Write => { core.rw_writer.insert(ev.obj, me); }
                Op::RwUnlock => { if ev.arg == 1 { core.rw_writer.remove(&ev.obj); } else if let Some(s) = core.rw_readers.get_mut(&ev.obj) { s.remove(&me); } }
                Op::Exit => {
                    core.exited.insert(ev.obj);
                    if let Some(t) = core.threads.get_mut(&me) { t.state = TState::Done; }
                    core.log.push(json!({"t": me, "k": "Exit", "o": "T", "id": ev.obj, "arg": 0, "call": ""}));
                    self.cv.notify_all();
                }
                Op::Mark => { let call = core.calls.get(&me).cloned().unwrap_or_default(); core.log.push(json!({"t": me, "k": "Mark", "o": ev.label, "id": 0, "arg": ev.arg, "call": call})); }
                Op::Unlock | _ => {}
            }
            if matches!(ev.op, Op::Unlock | Op::RwUnlock) {
                let call = core.calls.get(&me).cloned().unwrap_or_default();
                core.log.push(json!({"t": me, "k": format!("{:?}", ev.op), "o": short(ev.label), "id": ev.obj, "arg": ev.arg, "call": call}));
            }
        }
    }

    fn cv_wait(&self, cv: usize) -> Option<bool> {
        if cv == 0 { return Some(false); } // probe: this observer decides waits itself
        Some(self.park(Pending::CvWait(cv)))
    }

    fn cv_wait_forever(&self, cv: usize) -> Option<()> {
        self.park(Pending::CvWaitForever(cv));
        Some(())
    }
}

fn enabled_w(core: &Core, id: usize, wpref: bool) -> Option<&'static str> {
    if wpref {
        if let Some(t) = core.threads.get(&id) {
            if t.state == TState::Parked {
                if let Pending::Step(ev) = &t.pending {
                    if ev.op == Op::Read {
                        // a writer parked on the same lock goes first - also when this thread holds a read guard already (which is how a recursive read deadlocks)
                        let writer_waiting = core.threads.iter().any(|(j, o)| *j != id && o.state == TState::Parked && matches!(&o.pending, Pending::Step(e) if e.op == Op::Write && e.obj == ev.obj));
                        let held_by_others_or_me = core.rw_readers.get(&ev.obj).map(|s| !s.is_empty()).unwrap_or(false) || core.rw_writer.contains_key(&ev.obj);
                        if writer_waiting && held_by_others_or_me { return None; }
                    }
                }
            }
        }
    }
    enabled(core, id)
}

fn enabled(core: &Core, id: usize) -> Option<&'static str> {
    let t = core.threads.get(&id)?;
    if t.state != TState::Parked { return None; }
    match &t.pending {
        Pending::Step(ev) => match ev.op {
            Op::Lock => if core.mutex_owner.contains_key(&ev.obj) { None } else { Some("step") },
            Op::Read => if core.rw_writer.contains_key(&ev.obj) { None } else { Some("step") },
            Op::Write => if core.rw_writer.contains_key(&ev.obj) || core.rw_readers.get(&ev.obj).map(|s| !s.is_empty()).unwrap_or(false) { None } else { Some("step") },
            Op::Join => if core.exited.contains(&ev.obj) { Some("step") } else { None },
            _ => Some("step"),
        },
        Pending::CvWait(_) => if core.notified.contains(&id) { Some("wake") } else { Some("timeout") },
        Pending::CvWaitForever(_) => if core.notified.contains(&id) { Some("wake") } else { None },
        Pending::None => None,
    }
}

fn describe(core: &Core, id: usize) -> Value {
    let t = &core.threads[&id];
    match &t.pending {
        Pending::Step(ev) => json!({"t": id, "wants": format!("{:?}", ev.op), "o": short(ev.label), "id": ev.obj, "call": core.calls.get(&id).cloned().unwrap_or_default(),
                                   "held_by": core.mutex_owner.get(&ev.obj).or(core.rw_writer.get(&ev.obj)).map(|x| *x as i64).unwrap_or(-1)}),
        Pending::CvWait(cv) | Pending::CvWaitForever(cv) => json!({"t": id, "wants": "CvWait", "id": cv}),
        Pending::None => json!({"t": id, "state": format!("{:?}", t.state)}),
    }
}

fn exec_op(bars: &BTreeMap<i64, ProgressBar>, mp: &Option<MultiProgress>, mine: &mut BTreeMap<i64, Vec<ProgressBar>>, op: &Value, spy: &Spy) {
    let b = op.get("b").and_then(|x| x.as_i64()).unwrap_or(1);
    let name = op["op"].as_str().unwrap_or("");
    let pb = mine.get(&b).and_then(|v| v.first()).cloned();
    match name {
        "tick" => pb.unwrap().tick(),
        "inc" => pb.unwrap().inc(1),
        "dec" => pb.unwrap().dec(1),
        "set_position" => pb.unwrap().set_position(7),
        "update" => pb.unwrap().update(|s| s.set_pos(3)),
        "set_message" => pb.unwrap().set_message("m"),
        "reset_elapsed" => pb.unwrap().reset_elapsed(),
        "reset_eta" => pb.unwrap().reset_eta(),
        "set_length" => pb.unwrap().set_length(9),
        "inc_length" => pb.unwrap().inc_length(1),
        "finish" => pb.unwrap().finish(),
        "println" => pb.unwrap().println("L"),
        "suspend" => pb.unwrap().suspend(|| {}),
        "enable" => pb.unwrap().enable_steady_tick(Duration::from_secs(3600)),
        "enable_fast" => pb.unwrap().enable_steady_tick(Duration::from_nanos(1)),      // every iteration of the ticker takes longer than its interval
        "disable" => pb.unwrap().disable_steady_tick(),
        "is_finished" => { let _ = pb.unwrap().is_finished(); }
        "show" => pb.unwrap().set_draw_target(ProgressDrawTarget::term_like(Box::new(spy.clone()))),      // a bar born hidden gets a terminal
        "clone_drop" => { let c = pb.unwrap().clone(); drop(c); }
        "drop" => { drop(pb); mine.remove(&b); }
        "mp_println" => { let _ = mp.as_ref().unwrap().println("P"); }
        "mp_remove" => { mp.as_ref().unwrap().remove(&pb.unwrap()); }
        // a new bar placed after the shared one; the caller keeps it until its handles go away
        "mp_insert_after" => { let nb = ProgressBar::with_draw_target(Some(10), ProgressDrawTarget::hidden()); let nb = mp.as_ref().unwrap().insert_after(&pb.unwrap(), nb);
                               let k = 1000 + mine.len() as i64; mine.insert(k, vec![nb]); }
        "mp_add" => { let nb = ProgressBar::with_draw_target(Some(10), ProgressDrawTarget::hidden()); let nb = mp.as_ref().unwrap().add(nb); nb.tick(); }
        _ => {}
    }
    let _ = bars;
}

/// Operations of the final-state (linearizability) programs: the api driver's operations with their arguments, executed on shared
/// handles from several threads. A `suspend` closure parks once (a scheduling point of its own) before it writes its lines.
fn exec_lin(s2: &Arc<Sched>, spy: &Spy, mp: &Option<MultiProgress>, mine: &BTreeMap<i64, Vec<ProgressBar>>, op: &Value) {
    use crate::tok;
    let b = op.get("b").and_then(|x| x.as_i64()).unwrap_or(1);
    let name = op["op"].as_str().unwrap_or("");
    let n = op.get("n").and_then(|x| x.as_u64()).unwrap_or(0);
    let m = || tok::cells_to_string(op.get("m").unwrap_or(&Value::Null));
    let pb = || mine.get(&b).and_then(|v| v.first()).cloned().unwrap();
    let closure = |text: String| {
        // a scheduling point before every line the closure writes
        for l in text.split('\n') {
            s2.park(Pending::Step(Event { op: Op::Mark, label: "closure", obj: 0, before: true, arg: 0 }));
            spy.set_user(true);
            let _ = indicatif::TermLike::write_line(spy, l);
            spy.set_user(false);
        }
    };
    match name {
        "tick" => pb().tick(),
        "inc" => pb().inc(n),
        "set_position" => pb().set_position(n),
        "set_length" => pb().set_length(n),
        "set_message" => pb().set_message(m()),
        "set_prefix" => pb().set_prefix(m()),
        "set_tab_width" => pb().set_tab_width(n as usize),
        "set_style" => pb().set_style(crate::api::style(op["tpl"].as_str().unwrap_or("M"))),
        "reset" => pb().reset(),
        "force_draw" => pb().force_draw(),
        "finish" => pb().finish(),
        "finish_with_message" => pb().finish_with_message(m()),
        "finish_and_clear" => pb().finish_and_clear(),
        "abandon" => pb().abandon(),
        "abandon_with_message" => pb().abandon_with_message(m()),
        "println" => pb().println(m()),
        "suspend" => { let t = m(); pb().suspend(|| closure(t)) }
        "mp_println" => { let _ = mp.as_ref().unwrap().println(m()); }
        "mp_suspend" => { let t = m(); mp.as_ref().unwrap().suspend(|| closure(t)) }
        "disable" => pb().disable_steady_tick(),
        _ => {}
    }
}

/// Run one program in this process (call from a forked child). Returns the result record fields.
pub fn run_program(prog: &Value, out: &mut dyn Write) {
    let h = prog["h"].clone();
    let sched = Arc::new(Sched { core: Mutex::new(Core {
        threads: BTreeMap::new(), os2id: std::collections::HashMap::new(), spawn2id: BTreeMap::new(), next_ticker: 0, mutex_owner: BTreeMap::new(), rw_writer: BTreeMap::new(),
        rw_readers: BTreeMap::new(), notified: BTreeSet::new(), exited: BTreeSet::new(), labels: BTreeMap::new(), log: vec![], calls: BTreeMap::new() }), cv: Condvar::new(),
        atomics: prog["atomics"].as_bool().unwrap_or(false), wpref: prog["wpref"].as_bool().unwrap_or(false) });

    // every panic in this process is counted (the ticker threads have no catch_unwind of ours around them)
    use std::sync::atomic::{AtomicUsize, Ordering};
    static PANICS: AtomicUsize = AtomicUsize::new(0);
    PANICS.store(0, Ordering::SeqCst);
    std::panic::set_hook(Box::new(|_| { PANICS.fetch_add(1, Ordering::SeqCst); }));
    // a frozen virtual clock: every Instant::now() of the library returns the same instant, so a rate limited target has its burst and nothing more
    if prog["setup"]["frozen_clock"].as_bool().unwrap_or(false) { crate::clock::enable(); }
    // ---- setup (not scheduled: the observer is installed afterwards, except that tickers must be registered) ----
    let setup = &prog["setup"];
    let lin = prog["lin"].as_bool().unwrap_or(false);
    let multi = setup["multi"].as_bool().unwrap_or(false);
    let mut nb = setup["bars"].as_i64().unwrap_or(1);
    // final-state programs: the bars are created by the api driver's own creation operations (`news`), on its spy terminal
    let mut world = if lin {
        let mut cfg = json!({"w": setup["w"].as_u64().unwrap_or(40), "h": setup["h"].as_u64().unwrap_or(10)});
        if multi { cfg["mp"] = json!({"target": "spy", "hz": 0, "align": "top"}); }
        let mut w = crate::api::World::new(&cfg);
        for op in setup["news"].as_array().cloned().unwrap_or_default() { let _ = crate::api::exec(&mut w, &op); }
        nb = w.bars.len() as i64;
        Some(w)
    } else { None };
    let spy = match &world { Some(w) => w.spy.clone(), None => Spy::new(40, 10) };
    let mp = if let Some(w) = &world { w.mp.clone() } else if multi { Some(MultiProgress::with_draw_target(if setup["hz"].as_u64().unwrap_or(0) > 0 { ProgressDrawTarget::term_like_with_hz(Box::new(spy.clone()), setup["hz"].as_u64().unwrap() as u8) }
                                                               else { ProgressDrawTarget::term_like(Box::new(spy.clone())) })) } else { None };
    let mut bars: BTreeMap<i64, ProgressBar> = BTreeMap::new();
    if let Some(w) = world.as_mut() {
        for (b, v) in std::mem::take(&mut w.bars) { bars.insert(b, v[0].clone()); }
        w.mp = None;
    }
    for b in 1..=(if lin { 0 } else { nb }) {
        let pb = if multi { mp.as_ref().unwrap().add(ProgressBar::with_draw_target(Some(10), ProgressDrawTarget::hidden())) }
                 else if setup["hidden"].as_bool().unwrap_or(false) { ProgressBar::with_draw_target(Some(1000), ProgressDrawTarget::hidden()) }
                 else if setup["hz"].as_u64().unwrap_or(0) > 0 { ProgressBar::with_draw_target(Some(10), ProgressDrawTarget::term_like_with_hz(Box::new(spy.clone()), setup["hz"].as_u64().unwrap() as u8)) }
                 else if setup["nolen"].as_bool().unwrap_or(false) { ProgressBar::with_draw_target(None, ProgressDrawTarget::term_like(Box::new(spy.clone()))) }
                 else { ProgressBar::with_draw_target(Some(10), ProgressDrawTarget::term_like(Box::new(spy.clone()))) };
        if let Some(p0) = setup["pos0"].as_u64() { pb.set_position(p0); }
        pb.set_style(ProgressStyle::with_template(if setup["nolen"].as_bool().unwrap_or(false) { "{spinner}{msg}:{pos}|{len}" } else { "{spinner}{msg}:{pos}" }).unwrap().tick_strings(&["0", "1", "2", "3", "4", "5", "6", "7", "8", "9"]));
        if setup["named"].as_bool().unwrap_or(false) { pb.set_message(((b'a' + (b as u8) - 1) as char).to_string()); }
        bars.insert(b, pb);
    }
    // the main (setup) thread is logical thread 50: it performs the initial enable_steady_tick calls under the scheduler
    vh::set_observer(Some(sched.clone() as Arc<dyn Observer>));
    let nthreads = prog["threads"].as_array().map(|a| a.len()).unwrap_or(0);
    let schedule: Vec<usize> = prog["schedule"].as_array().map(|a| a.iter().map(|x| x.as_u64().unwrap_or(0) as usize).collect()).unwrap_or_default();
    let tickers: Vec<i64> = setup["ticker"].as_array().map(|a| a.iter().map(|x| x.as_i64().unwrap()).collect()).unwrap_or_default();

    // caller threads
    let mut handles = vec![];
    for tid in 0..nthreads {
        let ops: Vec<Value> = prog["threads"][tid].as_array().cloned().unwrap_or_default();
        let mut mine: BTreeMap<i64, Vec<ProgressBar>> = BTreeMap::new();
        for (b, pb) in bars.iter() { mine.insert(*b, vec![pb.clone()]); }
        let mpc = mp.clone();
        let s2 = sched.clone();
        let barsc = bars.clone();
        let tk = if tid == 0 { tickers.clone() } else { vec![] };
        let spyc = spy.clone();
        {
            let mut core = sched.core.lock().unwrap();
            core.threads.insert(tid, Th { state: TState::Running, pending: Pending::None, grant: None, is_ticker: false });
        }
        handles.push(std::thread::spawn(move || {
            { let mut core = s2.core.lock().unwrap(); core.os2id.insert(std::thread::current().id(), tid); }
            // first step of every caller: wait for the scheduler
            s2.park(Pending::Step(Event { op: Op::Mark, label: "begin", obj: 0, before: true, arg: 0 }));
            for b in tk.iter() {
                { let mut core = s2.core.lock().unwrap(); core.calls.insert(tid, "enable".into()); }
                mine.get(b).unwrap()[0].enable_steady_tick(Duration::from_secs(3600));
            }
            for op in ops.iter() {
                let name = op["op"].as_str().unwrap_or("").to_string();
                { let mut core = s2.core.lock().unwrap(); core.calls.insert(tid, name.clone()); let b = op.get("b").and_then(|x| x.as_i64()).unwrap_or(1);
                  core.log.push(json!({"t": tid, "k": "CallBegin", "o": name, "id": b, "arg": 0, "call": name})); }
                let r = std::panic::catch_unwind(std::panic::AssertUnwindSafe(|| if lin { exec_lin(&s2, &spyc, &mpc, &mine, op) } else { exec_op(&barsc, &mpc, &mut mine, op, &spyc) }));
                { let mut core = s2.core.lock().unwrap(); let b = op.get("b").and_then(|x| x.as_i64()).unwrap_or(1);
                  core.log.push(json!({"t": tid, "k": if r.is_ok() { "CallEnd" } else { "CallPanic" }, "o": name, "id": b, "arg": 0, "call": name})); core.calls.insert(tid, String::new()); }
            }
            // end of the caller: its handles go away (the last one runs BarState::drop and joins the ticker)
            { let mut core = s2.core.lock().unwrap(); core.calls.insert(tid, "drop_all".into()); core.log.push(json!({"t": tid, "k": "CallBegin", "o": "drop_all", "id": 0, "arg": 0, "call": "drop_all"})); }
            drop(mine);
            drop(barsc);
            drop(mpc);
            { let mut core = s2.core.lock().unwrap(); core.log.push(json!({"t": tid, "k": "CallEnd", "o": "drop_all", "id": 0, "arg": 0, "call": "drop_all"}));
              core.threads.get_mut(&tid).unwrap().state = TState::Done; }
            s2.cv.notify_all();
        }));
    }
    let probe = bars.get(&1).map(|p| p.downgrade());
    let keep = if lin || prog["keep"].as_bool().unwrap_or(false) { Some(bars.clone()) } else { None };
    let keep_mp = if lin { mp.clone() } else { None };
    drop(bars);
    drop(mp);

    // ---- scheduler loop ----
    let mut pos = 0usize;
    let mut deviations = 0usize;
    let started = Instant::now();
    let result;
    loop {
        let mut core = sched.core.lock().unwrap();
        // wait until nobody is running
        loop {
            let running = core.threads.values().any(|t| t.state == TState::Running);
            if !running { break; }
            let (c, to) = sched.cv.wait_timeout(core, Duration::from_millis(200)).unwrap();
            core = c;
            if to.timed_out() && started.elapsed() > Duration::from_secs(20) { break; }
        }
        if started.elapsed() > Duration::from_secs(20) { result = json!({"result": "hang"}); break; }
        let callers_done = (0..nthreads).all(|t| core.threads.get(&t).map(|x| x.state == TState::Done).unwrap_or(true));
        let all_done = core.threads.values().all(|t| t.state == TState::Done);
        if all_done { result = json!({"result": "ok"}); break; }
        let ids: Vec<usize> = core.threads.keys().copied().collect();
        let en: Vec<(usize, &'static str)> = ids.iter().filter_map(|i| enabled_w(&core, *i, sched.wpref).map(|k| (*i, k))).collect();
        let solid: Vec<usize> = en.iter().filter(|(_, k)| *k != "timeout").map(|(i, _)| *i).collect();
        if solid.is_empty() {
            let blocked: Vec<Value> = ids.iter().filter(|i| core.threads[i].state == TState::Parked).map(|i| describe(&core, *i)).collect();
            if callers_done {
                // only tickers are left, waiting for their interval: they are stopped by the drop of the last handle; nothing to do
                if en.is_empty() { result = json!({"result": "ok"}); break; }
            } else if en.is_empty() {
                result = json!({"result": "deadlock", "blocked": blocked});
                break;
            } else {
                // a caller is blocked and only the expiry of a tick interval can unblock it
                result = json!({"result": "timeout_dependence", "blocked": blocked});
                break;
            }
        }
        // choose: next schedule entry that is enabled, else the smallest enabled id
        let mut choice = None;
        while pos < schedule.len() {
            let want = schedule[pos];
            pos += 1;
            if let Some((i, _)) = en.iter().find(|(i, _)| *i == want) { choice = Some(*i); break; }
            deviations += 1;
        }
        let pick = choice.unwrap_or_else(|| if !solid.is_empty() { solid[0] } else { en[0].0 });
        let kind = en.iter().find(|(i, _)| *i == pick).unwrap().1;
        if let Pending::CvWait(cv) | Pending::CvWaitForever(cv) = core.threads[&pick].pending.clone() {
            core.notified.remove(&pick);
            core.log.push(json!({"t": pick, "k": if kind == "wake" { "CvWake" } else { "CvTimeout" }, "o": "CV", "id": cv, "arg": 0, "call": ""}));
        }
        let t = core.threads.get_mut(&pick).unwrap();
        t.grant = Some(kind == "timeout");
        t.state = TState::Running;
        drop(core);
        sched.cv.notify_all();
    }
    vh::set_observer(None);
    let final_pos: i64 = keep.as_ref().and_then(|k| k.get(&1)).map(|p| p.position() as i64).unwrap_or(-1);
    let _ = probe;
    let core = sched.core.lock().unwrap();
    let mut rec = result.as_object().cloned().unwrap();
    rec.insert("h".into(), h);
    rec.insert("i".into(), json!(1));
    rec.insert("op".into(), json!("run"));
    rec.insert("steps".into(), json!(core.log));
    rec.insert("deviations".into(), json!(deviations));
    rec.insert("nthreads".into(), json!(nthreads));
    rec.insert("final_pos".into(), json!(final_pos));
    rec.insert("sumcheck".into(), json!(prog["atomics"].as_bool().unwrap_or(false)));
    rec.insert("pos0".into(), json!(prog["setup"]["pos0"].as_i64().unwrap_or(0)));
    // spinner frames drawn so far (template "{spinner}{msg}{pos}", tick strings "0".."9") and ticker ticks
    let (calls, _) = spy.take();
    if lin {
        // everything the terminal received, in order, and the getters of every bar after all threads have finished
        let mut gets: Vec<Value> = vec![];
        if let Some(k) = keep.as_ref() {
            for (_, p) in k.iter() {
                let g = std::panic::catch_unwind(std::panic::AssertUnwindSafe(|| {
                    let len = p.length();
                    json!({"msg": crate::tok::cells_json(&p.message()), "prefix": crate::tok::cells_json(&p.prefix()), "fin": p.is_finished(),
                           "pos_s": crate::api::small(p.position()), "haslen": len.is_some(), "len_s": crate::api::small(len.unwrap_or(0)), "poisoned": false})
                }));
                gets.push(g.unwrap_or_else(|_| json!({"msg": [], "prefix": [], "fin": false, "pos_s": -2, "haslen": false, "len_s": -2, "poisoned": true})));
            }
        }
        rec.insert("lin".into(), json!(true));
        rec.insert("tbar".into(), json!(tickers.first().copied().unwrap_or(0)));      // the bar the steady ticker belongs to (0: none)
        rec.insert("calls".into(), calls.clone());
        rec.insert("gets".into(), json!(gets));
        rec.insert("cfg".into(), json!({"w": setup["w"].as_u64().unwrap_or(40), "h": setup["h"].as_u64().unwrap_or(10), "multi": multi}));
        rec.insert("news".into(), setup["news"].clone());
        rec.insert("threads".into(), prog["threads"].clone());
        rec.insert("callpanics".into(), json!(core.log.iter().filter(|s| s["k"] == "CallPanic").count()));
        // how many times the running thread changed while another thread was inside a call (the interleaving was real)
        let mut open: BTreeSet<i64> = BTreeSet::new(); let mut switches = 0; let mut last: i64 = -1;
        for st in core.log.iter() {
            let t = st["t"].as_i64().unwrap_or(-1);
            if st["k"] == "CallBegin" { open.insert(t); }
            if t != last && last >= 0 && open.contains(&last) && t < 50 { switches += 1; }
            if st["k"] == "CallEnd" || st["k"] == "CallPanic" { open.remove(&t); }
            if t < 50 { last = t; }
        }
        rec.insert("switches".into(), json!(switches));
    }
    let _ = &keep_mp;
    let mut spinners: Vec<i64> = vec![];
    let cs = calls.as_array().cloned().unwrap_or_default();
    for (j, c) in cs.iter().enumerate() {
        if c["k"] == "str" { if let Some(a) = c["c"].as_array() { if let Some(g) = a.first().and_then(|x| x.as_i64()) {
            // the first str after a clear/up sequence is the bar line
            let prev_is_move = j > 0 && (cs[j - 1]["k"] == "up" || cs[j - 1]["k"] == "clear");
            if prev_is_move && (48..58).contains(&g) { spinners.push(g - 48); }
        } } }
    }
    // painted frames (between flushes): for every bar line "<spinner><letter>:<pos>" the pair [bar, pos]
    let mut frames: Vec<Vec<[i64; 3]>> = vec![];
    let mut cur: Vec<[i64; 3]> = vec![];
    for c in cs.iter() {
        if c["k"] == "flush" { frames.push(std::mem::take(&mut cur)); continue; }
        if c["k"] == "str" || c["k"] == "line" {
            let a: Vec<i64> = c["c"].as_array().map(|a| a.iter().filter_map(|x| x.as_i64()).collect()).unwrap_or_default();
            if a.len() >= 4 && (48..58).contains(&a[0]) && (97..123).contains(&a[1]) && a[2] == 58 {
                let mut v: i64 = 0; let mut ok = false; let mut k = 3;
                for g in a[3..].iter() { if (48..58).contains(g) { v = v * 10 + (g - 48); ok = true; k += 1; } else { break; } }
                // "...|<len>": what the same frame shows for {len}
                let mut l: i64 = -1;
                if k < a.len() && a[k] == 124 { let mut w = 0; let mut any = false; for g in a[k + 1..].iter() { if (48..58).contains(g) { w = w * 10 + (g - 48); any = true; } else { break; } } if any { l = w; } }
                if ok { cur.push([a[1] - 96, v, l]); }
            }
        }
    }
    let call_panics = core.log.iter().filter(|s| s["k"] == "CallPanic").count();
    rec.insert("tpanics".into(), json!(PANICS.load(Ordering::SeqCst).saturating_sub(call_panics)));
    rec.insert("flushes".into(), json!(cs.iter().filter(|c| c["k"] == "flush").count()));
    rec.insert("limcheck".into(), json!(prog["limcheck"].as_u64().unwrap_or(0)));
    rec.insert("frames".into(), json!(frames));
    rec.insert("framecheck".into(), json!(prog["framecheck"].as_bool().unwrap_or(false)));
    rec.insert("paircheck".into(), json!(prog["paircheck"].as_bool().unwrap_or(false)));
    rec.insert("nbars".into(), json!(nb));
    let tticks = core.log.iter().filter(|s| s["k"] == "Mark" && s["o"] == "ticker_tick").count();
    rec.insert("spinners".into(), json!(spinners));
    rec.insert("tticks".into(), json!(tticks));
    rec.insert("spincheck".into(), json!(prog["spincheck"].as_bool().unwrap_or(false)));
    rec.insert("spinle".into(), json!(prog["setup"]["hidden"].as_bool().unwrap_or(false)));      // the bar starts hidden: ticker ticks before it is shown paint nothing
    rec.insert("panic".into(), json!(""));
    if !rec.contains_key("blocked") { rec.insert("blocked".into(), json!([])); }
    writeln!(out, "{}", Value::Object(rec)).unwrap();
    out.flush().unwrap();
    // threads that are still blocked are abandoned: the process exits
    let _ = handles;
}
