mod clock;
mod tok;
mod spy;
mod api;
mod termconf;
mod show;
mod est;
mod sched;
mod tpl;
mod stylebuild;
mod field;
mod bargeom;
mod place;
mod formats;
mod adaptors;

use std::io::{BufRead, BufWriter, Write};

/// length of the file up to and including its last newline
fn complete_prefix_len(path: &str) -> u64 {
    use std::io::{Read, Seek, SeekFrom};
    let mut f = match std::fs::File::open(path) { Ok(f) => f, Err(_) => return 0 };
    let len = f.metadata().map(|m| m.len()).unwrap_or(0);
    let mut end = len;
    let mut buf = vec![0u8; 65536];
    while end > 0 {
        let start = end.saturating_sub(buf.len() as u64);
        let n = (end - start) as usize;
        if f.seek(SeekFrom::Start(start)).is_err() || f.read_exact(&mut buf[..n]).is_err() { return len; }
        if let Some(p) = buf[..n].iter().rposition(|c| *c == b'\n') { return start + p as u64 + 1; }
        end = start;
    }
    0
}

fn usage() -> ! {
    eprintln!("usage: harness <driver> <in.ndjson> <out.ndjson> [seed]");
    std::process::exit(2)
}

fn main() {
    let args: Vec<String> = std::env::args().collect();
    if args.len() < 4 { usage(); }
    if std::env::var("VERIF_PANIC_VERBOSE").is_err() { std::panic::set_hook(Box::new(|_| {})); }
    let input = std::io::BufReader::new(std::fs::File::open(&args[2]).expect("open input"));
    let mut out = BufWriter::new(std::fs::File::create(&args[3]).expect("create output"));
    match args[1].as_str() {
        "api" => {
            // Each history runs in a forked child: a panic inside a destructor while another panic
            // unwinds (poisoned locks) aborts the process, and that must be data, not a tool failure.
            clock::enable();
            let mut hangs = 0;
            for line in input.lines() {
                let line = line.unwrap();
                if line.trim().is_empty() { continue; }
                // after five histories that never returned the verdict is settled; the rest of this shard would only cost their time-outs
                if hangs >= 5 { continue; }
                let hist: serde_json::Value = serde_json::from_str(&line).expect("bad history json");
                out.flush().unwrap();
                let pid = unsafe { libc::fork() };
                if pid == 0 {
                    api::run_history(&hist, &mut out);
                    out.flush().unwrap();
                    unsafe { libc::_exit(0) };
                }
                // a history that does not finish (a call that blocks for ever, e.g. a lock taken twice on an error path) is data too:
                // the child is killed when it has slept without progress for 5 s and the history ends with an `abort` record that says so
                let mut status: libc::c_int = 0;
                // A hang is a child that SLEEPS (every task in state S) without using any CPU time for 5 s of real time (raw clock: the virtual clock
                // stands still here). A child that is merely starved on a loaded machine is runnable (state R) or makes progress, and is waited for.
                let cpu_and_sleeping = |pid: i32| -> (u64, bool) {
                    let mut cpu = 0u64; let mut all_sleep = true;
                    if let Ok(rd) = std::fs::read_dir(format!("/proc/{pid}/task")) {
                        for t in rd.flatten() {
                            if let Ok(st) = std::fs::read_to_string(t.path().join("stat")) {
                                if let Some(p) = st.rfind(')') {
                                    let f: Vec<&str> = st[p + 1..].split_whitespace().collect();
                                    if f.first().map(|x| *x != "S").unwrap_or(true) { all_sleep = false; }
                                    cpu += f.get(11).and_then(|x| x.parse::<u64>().ok()).unwrap_or(0) + f.get(12).and_then(|x| x.parse::<u64>().ok()).unwrap_or(0);
                                }
                            }
                        }
                    } else { all_sleep = false; }
                    (cpu, all_sleep)
                };
                let t0 = clock::real_ns();
                let mut hung = false;
                let mut idle_since = t0; let mut last_cpu = u64::MAX;
                loop {
                    let r = unsafe { libc::waitpid(pid, &mut status, libc::WNOHANG) };
                    if r == pid { break; }
                    let now = clock::real_ns();
                    let el = now - t0;
                    if el > 50_000_000 {
                        let (cpu, sleeping) = cpu_and_sleeping(pid);
                        if !sleeping || cpu != last_cpu { idle_since = now; last_cpu = cpu; }
                        if now - idle_since > 5_000_000_000 || el > 300_000_000_000 { hung = true; hangs += 1; unsafe { libc::kill(pid, libc::SIGKILL); libc::waitpid(pid, &mut status, 0); } break; }
                    }
                    unsafe { libc::usleep(if el < 50_000_000 { 100 } else { 5000 }); }
                }
                if hung || !(libc::WIFEXITED(status) && libc::WEXITSTATUS(status) == 0) {
                    use std::io::Seek;
                    out.flush().unwrap();
                    // the child may have died in the middle of a record: cut the file back to the last complete line
                    let keep = complete_prefix_len(&args[3]);
                    let _ = out.get_mut().set_len(keep);
                    let _ = out.get_mut().seek(std::io::SeekFrom::End(0));
                    let n = hist["ops"].as_array().map(|a| a.len()).unwrap_or(0);
                    writeln!(out, "{}", serde_json::json!({"h": hist["h"], "i": n + 1, "op": "abort", "b": 0, "calls": [], "q": 0, "t": 0, "ret": "abort",
                        "panic": if hung { "hang: a call did not return within 5 s (the history was killed)".to_string() } else { format!("process aborted (status {status}): panic while panicking") }, "pipe": 0, "failed": 0,
                        "frac": -1, "shown": [], "get": {"has": false, "pos": [0,0,0,0,0], "pos_s": 0, "len": [0,0,0,0,0], "len_s": 0, "haslen": false, "msg": [], "prefix": [], "fin": false, "elapsed_us": 0}})).unwrap();
                }
            }
        }
        "sync" => {
            // one forked child per program; a child that does not finish in time is a hang
            for line in input.lines() {
                let line = line.unwrap();
                if line.trim().is_empty() { continue; }
                let prog: serde_json::Value = serde_json::from_str(&line).expect("bad program json");
                out.flush().unwrap();
                let pid = unsafe { libc::fork() };
                if pid == 0 {
                    sched::run_program(&prog, &mut out);
                    out.flush().unwrap();
                    unsafe { libc::_exit(0) };
                }
                let t0 = std::time::Instant::now();
                let mut status: libc::c_int = 0;
                let mut done = false;
                while t0.elapsed() < std::time::Duration::from_secs(40) {
                    let r = unsafe { libc::waitpid(pid, &mut status, libc::WNOHANG) };
                    if r == pid { done = true; break; }
                    std::thread::sleep(std::time::Duration::from_millis(2));
                }
                if !done { unsafe { libc::kill(pid, libc::SIGKILL); libc::waitpid(pid, &mut status, 0); } }
                if !done || !(libc::WIFEXITED(status) && libc::WEXITSTATUS(status) == 0) {
                    use std::io::Seek;
                    out.flush().unwrap();
                    let keep = complete_prefix_len(&args[3]);
                    let _ = out.get_mut().set_len(keep);
                    let _ = out.get_mut().seek(std::io::SeekFrom::End(0));
                    writeln!(out, "{}", serde_json::json!({"h": prog["h"], "i": 1, "op": "run", "result": if done { "crash" } else { "hang" }, "steps": [], "blocked": [], "deviations": 0, "nthreads": 0, "panic": "", "spinners": [], "tticks": 0, "spincheck": false, "flushes": 0, "limcheck": 0, "tpanics": 0, "final_pos": -1, "pos0": 0, "frames": [], "framecheck": false, "paircheck": false, "nbars": 0, "sumcheck": false})).unwrap();
                }
            }
        }
        "est" => {
            clock::enable();
            for line in input.lines() {
                let line = line.unwrap();
                if line.trim().is_empty() { continue; }
                let hist: serde_json::Value = serde_json::from_str(&line).expect("bad history json");
                est::run_history(&hist, &mut out);
            }
        }
        "tpl" => stylebuild::run_forked(input, &mut out, tpl::run_history, tpl::abort_rec),
        "stylebuild" => stylebuild::run_all(input, &mut out),
        "field" => { clock::enable(); field::for_each_history(input, &mut out, field::run_history); }
        "bargeom" => { clock::enable(); field::for_each_history(input, &mut out, bargeom::run_history); }
        "place" => { clock::enable(); field::for_each_history(input, &mut out, place::run_history); }
        "formats" => { let seed = args.get(4).and_then(|s| s.parse().ok()).unwrap_or(1); for line in input.lines() { let line = line.unwrap(); if line.trim().is_empty() { continue; } formats::run_history(&serde_json::from_str(&line).expect("bad history json"), &mut out, seed); } }
        "adaptors" => { for line in input.lines() { let line = line.unwrap(); if line.trim().is_empty() { continue; } adaptors::run_history(&serde_json::from_str(&line).expect("bad history json"), &mut out); } }
        "show" => {
            clock::enable();
            for line in input.lines() {
                let line = line.unwrap();
                if line.trim().is_empty() { continue; }
                let v: serde_json::Value = serde_json::from_str(&line).expect("bad json");
                let hist = if v.get("history").is_some() { v["history"].clone() } else { v };
                show::run(&hist);
            }
        }
        "termconf" => {
            let (mut n, mut bad) = (0u64, 0u64);
            for line in input.lines() {
                let line = line.unwrap();
                if line.trim().is_empty() { continue; }
                let beh: serde_json::Value = serde_json::from_str(&line).expect("bad json");
                n += 1;
                if !termconf::run(&beh, &mut out) { bad += 1; }
            }
            println!("termconf behaviours={} mismatches={}", n, bad);
        }
        _ => usage(),
    }
    out.flush().unwrap();
}
