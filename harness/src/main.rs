mod clock;
mod tok;
mod spy;
mod api;
mod termconf;
mod show;

use std::io::{BufRead, BufWriter, Write};

fn usage() -> ! {
    eprintln!("usage: harness <driver> <in.ndjson> <out.ndjson> [seed]");
    std::process::exit(2)
}

fn main() {
    let args: Vec<String> = std::env::args().collect();
    if args.len() < 4 { usage(); }
    if std::env::var("VERIF_PANIC_VERBOSE").is_err() { std::panic::set_hook(Box::new(|_| {})); }
    let input = std::io::BufReader::new(std::fs::File::open(&args[2]).expect("open input"));
    let mut out = BufWriter::new(std::fs::File::create(&args[3]).expect("create output"));
    match args[1].as_str() {
        "api" => {
            clock::enable();
            for line in input.lines() {
                let line = line.unwrap();
                if line.trim().is_empty() { continue; }
                let hist: serde_json::Value = serde_json::from_str(&line).expect("bad history json");
                api::run_history(&hist, &mut out);
            }
        }
        "show" => {
            clock::enable();
            for line in input.lines() {
                let line = line.unwrap();
                if line.trim().is_empty() { continue; }
                let v: serde_json::Value = serde_json::from_str(&line).expect("bad json");
                let hist = if v.get("history").is_some() { v["history"].clone() } else { v };
                show::run(&hist);
            }
        }
        "termconf" => {
            let (mut n, mut bad) = (0u64, 0u64);
            for line in input.lines() {
                let line = line.unwrap();
                if line.trim().is_empty() { continue; }
                let beh: serde_json::Value = serde_json::from_str(&line).expect("bad json");
                n += 1;
                if !termconf::run(&beh, &mut out) { bad += 1; }
            }
            println!("termconf behaviours={} mismatches={}", n, bad);
        }
        _ => usage(),
    }
    out.flush().unwrap();
}
