//! Driver for C11 (placeholder values): builds a bar by a short history under the frozen virtual
//! clock, then renders one template `[{key}]{probe}` per documented key into the spy terminal and
//! logs, in the same record, the value of every formatter applied to the PUBLIC getters at the same
//! frozen instant (`f`), the state a custom key saw when it was written (`seen`), the getters (`get`)
//! and the call counts of a stateful custom ProgressTracker (`trk`).
use std::io::Write;
use std::panic::{catch_unwind, AssertUnwindSafe};
use std::sync::{Arc, Mutex};
use std::time::Instant;
use indicatif::style::ProgressTracker;
use indicatif::{BinaryBytes, DecimalBytes, FormattedDuration, HumanBytes, HumanCount, HumanDuration, HumanFloatCount};
use indicatif::{ProgressBar, ProgressDrawTarget, ProgressFinish, ProgressState, ProgressStyle};
use serde_json::{json, Map, Value};
use crate::{api::{limbs, u64_of}, clock, field::{init_record, painted_strs, panic_msg}, spy::Spy, tok};

#[derive(Default, Clone)]
struct Trk { ticks: u64, resets: u64, writes: u64, tpos: u64, thas: bool, tlen: u64, wpos: u64, whas: bool, wlen: u64, wfin: bool, frac: f32, probes: u64, rpos: u64, rfin: bool }
type Shared = Arc<Mutex<Trk>>;

/// stateful custom key `ctr`: counts its tick / reset / write calls and remembers the state it was given
struct Counter(Shared);
impl ProgressTracker for Counter {
    fn clone_box(&self) -> Box<dyn ProgressTracker> { Box::new(Counter(self.0.clone())) }
    fn tick(&mut self, s: &ProgressState, _: Instant) { let mut g = self.0.lock().unwrap(); g.ticks += 1; g.tpos = s.pos(); g.thas = s.len().is_some(); g.tlen = s.len().unwrap_or(0); }
    // the state a tracker is reset with is the bar's state after the reset (position 0, in progress)
    fn reset(&mut self, s: &ProgressState, _: Instant) { let mut g = self.0.lock().unwrap(); g.resets += 1; g.rpos = s.pos(); g.rfin = s.is_finished(); }
    fn write(&self, s: &ProgressState, w: &mut dyn std::fmt::Write) {
        let mut g = self.0.lock().unwrap();
        g.writes += 1;
        let _ = write!(w, "t{}r{}p{}", g.ticks, g.resets, s.pos());
        if g.resets > 0 { let _ = write!(w, "z{}{}", g.rpos, if g.rfin { "f" } else { "n" }); }
    }
}
/// custom key `probe`: writes nothing, records the state it is given at write time
struct Probe(Shared);
impl ProgressTracker for Probe {
    fn clone_box(&self) -> Box<dyn ProgressTracker> { Box::new(Probe(self.0.clone())) }
    fn tick(&mut self, _: &ProgressState, _: Instant) {}
    fn reset(&mut self, _: &ProgressState, _: Instant) {}
    fn write(&self, s: &ProgressState, _: &mut dyn std::fmt::Write) {
        let mut g = self.0.lock().unwrap();
        g.probes += 1; g.wpos = s.pos(); g.whas = s.len().is_some(); g.wlen = s.len().unwrap_or(0); g.wfin = s.is_finished(); g.frac = s.fraction();
    }
}

/// `lead`: the judged line is the second one of the template, below a line that holds a wide element
fn style_for(key: &str, ts: &[String], sh: &Shared, lead: bool) -> ProgressStyle {
    let refs: Vec<&str> = ts.iter().map(|s| s.as_str()).collect();
    ProgressStyle::with_template(&if lead { format!("{{wide_msg}}\n[{{{key}}}]{{probe}}") } else { format!("[{{{key}}}]{{probe}}") }).unwrap()
        .tick_strings(&refs)
        .with_key("ctr", Counter(sh.clone()))
        .with_key("probe", Probe(sh.clone()))
}

fn c(s: String) -> Value { tok::cells_json(&s) }

fn facts(pb: &ProgressBar, g: &Trk) -> Value {
    let pos = pb.position();
    let len = pb.length();
    let (el, eta, dur, ps) = (pb.elapsed(), pb.eta(), pb.duration(), pb.per_sec());
    let l = |f: &dyn Fn(u64) -> String| -> Value { match len { Some(x) => c(f(x)), None => json!([]) } };
    json!({
        "dec_pos": c(format!("{pos}")), "dec_len": l(&|x| format!("{x}")),
        "hc_pos": c(format!("{}", HumanCount(pos))), "hc_len": l(&|x| format!("{}", HumanCount(x))),
        "hb_pos": c(format!("{}", HumanBytes(pos))), "hb_len": l(&|x| format!("{}", HumanBytes(x))),
        "db_pos": c(format!("{}", DecimalBytes(pos))), "db_len": l(&|x| format!("{}", DecimalBytes(x))),
        "bb_pos": c(format!("{}", BinaryBytes(pos))), "bb_len": l(&|x| format!("{}", BinaryBytes(x))),
        "pct0": c(format!("{:.0}", g.frac * 100f32)), "pct3": c(format!("{:.3}", g.frac * 100f32)),
        "el_p": c(format!("{}", FormattedDuration(el))), "el_h": c(format!("{:#}", HumanDuration(el))),
        "eta_p": c(format!("{}", FormattedDuration(eta))), "eta_h": c(format!("{:#}", HumanDuration(eta))),
        "dur_p": c(format!("{}", FormattedDuration(dur))), "dur_h": c(format!("{:#}", HumanDuration(dur))),
        "ps": c(format!("{}/s", HumanFloatCount(ps))), "bps": c(format!("{}/s", HumanBytes(ps as u64))),
        "dbps": c(format!("{}/s", DecimalBytes(ps as u64))), "bbps": c(format!("{}/s", BinaryBytes(ps as u64))),
        "msg": c(pb.message()), "prefix": c(pb.prefix()),
        "ctr": c(format!("t{}r{}p{}{}", g.ticks, g.resets, pos, if g.resets > 0 { "z0n" } else { "" })),
    })
}
fn no_facts() -> Value {
    let mut m = Map::new();
    for k in ["dec_pos", "dec_len", "hc_pos", "hc_len", "hb_pos", "hb_len", "db_pos", "db_len", "bb_pos", "bb_len", "pct0", "pct3", "el_p", "el_h", "eta_p", "eta_h",
              "dur_p", "dur_h", "ps", "bps", "dbps", "bbps", "msg", "prefix", "ctr"] { m.insert(k.into(), json!([])); }
    Value::Object(m)
}

pub fn run_history(hist: &Value, out: &mut dyn Write) {
    clock::reset();
    let h = hist["h"].clone();
    init_record(&h, out);
    let sh: Shared = Arc::new(Mutex::new(Trk::default()));
    let spy = Spy::new(200, 100);
    let mut pb: Option<ProgressBar> = None;
    let mut ts: Vec<String> = vec!["x".into(), "y".into()];
    // decided by the first operation of the history (not by its number or its length, which a replay file changes)
    let lead_hist = hist["ops"][0].to_string().bytes().fold(0u32, |a, b| a.wrapping_mul(31).wrapping_add(b as u32)) % 2 == 1;
    for (i, op) in hist["ops"].as_array().cloned().unwrap_or_default().iter().enumerate() {
        let mut rec = op.as_object().cloned().unwrap_or_default();
        let name = op["op"].as_str().unwrap_or("");
        let n = op.get("n").map(u64_of).unwrap_or(0);
        let m = || tok::cells_to_string(op.get("m").unwrap_or(&Value::Null));
        let r = catch_unwind(AssertUnwindSafe(|| -> (Vec<Value>, Value, Value) {
            let mut f = no_facts();
            let mut got = json!([]);
            match name {
                "new" => {
                    ts = op["ts"].as_array().map(|a| a.iter().map(tok::cells_to_string).collect()).unwrap_or_default();
                    let len = if op["nolen"].as_bool().unwrap_or(false) { None } else { Some(u64_of(&op["len"])) };
                    let tgt = if op["hid0"].as_bool().unwrap_or(false) { ProgressDrawTarget::hidden() } else { ProgressDrawTarget::term_like(Box::new(spy.clone())) };
                    let b = ProgressBar::with_draw_target(len, tgt)
                        .with_finish(ProgressFinish::Abandon)
                        .with_style(style_for("ctr", &ts, &sh, false))
                        .with_message(tok::cells_to_string(&op["m0"])).with_prefix(tok::cells_to_string(&op["p0"]))
                        .with_position(u64_of(&op["pos0"]));
                    pb = Some(b);
                }
                "adv" => clock::advance(u64_of(&op["ns"])),
                "tickstr" => {
                    let st = style_for("ctr", &ts, &sh, false);
                    got = json!({"tick": c(st.get_tick_str(u64_of(&op["idx"])).to_string()), "fin": c(st.get_final_tick_str().to_string())});
                }
                _ => {
                    let p = pb.as_ref().expect("operation before new");
                    match name {
                        "tick" => p.tick(),
                        "ticks" => { for _ in 0..op["k"].as_u64().unwrap_or(0) { p.tick(); } }
                        "inc" => p.inc(n),
                        "dec" => p.dec(n),
                        "set_position" => p.set_position(n),
                        "set_length" => p.set_length(n),
                        "unset_length" => p.unset_length(),
                        "inc_length" => p.inc_length(n),
                        "dec_length" => p.dec_length(n),
                        "set_message" => p.set_message(m()),
                        "set_prefix" => p.set_prefix(m()),
                        "finish" => p.finish(),
                        "finish_with_message" => p.finish_with_message(m()),
                        "abandon" => p.abandon(),
                        "abandon_with_message" => p.abandon_with_message(m()),
                        "reset" => p.reset(),
                        "show" => p.set_draw_target(ProgressDrawTarget::term_like(Box::new(spy.clone()))),
                        "render" => {
                            let _ = painted_strs(&spy, 0);
                            // every other history renders its keys on the second line of a template whose first line is `{wide_msg}`
                            let lead = lead_hist && !p.message().contains('\n');
                            p.set_style(style_for(op["key"].as_str().unwrap_or("pos"), &ts, &sh, lead));
                            p.force_draw();
                            let strs = if lead { let mut v = painted_strs(&spy, 2); if v.len() >= 2 { v.remove(0); } v } else { painted_strs(&spy, 1) };
                            let g = sh.lock().unwrap().clone();
                            f = facts(p, &g);
                            return (strs, f, got);
                        }
                        _ => panic!("unknown operation {name}"),
                    }
                }
            }
            (vec![], f, got)
        }));
        let (strs, f, got, panic) = match r { Ok((s, f, g)) => (s, f, g, String::new()), Err(e) => (vec![], no_facts(), json!([]), panic_msg(e)) };
        let _ = painted_strs(&spy, 0);
        let g = sh.lock().unwrap_or_else(|e| e.into_inner()).clone();
        rec.insert("nstr".into(), json!(strs.len()));
        rec.insert("out".into(), strs.first().cloned().unwrap_or(json!([])));
        rec.insert("f".into(), f);
        rec.insert("got".into(), if got.is_object() { got } else { json!({"tick": [], "fin": []}) });
        rec.insert("trk".into(), json!({"ticks": g.ticks, "resets": g.resets, "writes": g.writes, "probes": g.probes,
            "tick_saw": {"pos": limbs(g.tpos), "haslen": g.thas, "len": limbs(g.tlen), "fin": false}}));
        rec.insert("seen".into(), json!({"pos": limbs(g.wpos), "haslen": g.whas, "len": limbs(g.wlen), "fin": g.wfin}));
        let get = match pb.as_ref() {
            Some(p) => catch_unwind(AssertUnwindSafe(|| json!({"pos": limbs(p.position()), "haslen": p.length().is_some(), "len": limbs(p.length().unwrap_or(0)), "fin": p.is_finished(),
                                                                "msg": c(p.message()), "prefix": c(p.prefix())}))).unwrap_or(json!({"pos": [0,0,0,0,0], "haslen": false, "len": [0,0,0,0,0], "fin": false, "msg": [], "prefix": [], "poisoned": true})),
            None => json!({"pos": [0,0,0,0,0], "haslen": false, "len": [0,0,0,0,0], "fin": false, "msg": [], "prefix": []}),
        };
        rec.insert("get".into(), get);
        rec.insert("t".into(), limbs(clock::now_rel()));
        rec.insert("panic".into(), json!(panic));
        rec.insert("h".into(), h.clone());
        rec.insert("i".into(), json!(i + 1));
        for (k, d) in [("key", json!("")), ("k", json!(0)), ("m", json!([])), ("n", json!([0,0,0,0,0])), ("idx", json!([0,0,0,0,0]))] { rec.entry(k.to_string()).or_insert(d); }
        writeln!(out, "{}", Value::Object(rec)).unwrap();
    }
}
