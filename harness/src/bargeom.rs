//! Driver for C13 (progress-bar geometry): a history is one configuration (`new`: template
//! `[{bar:N}]` or `pre{wide_bar}suf`, progress characters, length, terminal width) followed by
//! positions; every position is set on the real ProgressBar, drawn into the spy terminal, and the
//! painted line is logged as cells.
use std::io::Write;
use std::panic::{catch_unwind, AssertUnwindSafe};
use indicatif::{ProgressBar, ProgressDrawTarget, ProgressFinish, ProgressStyle};
use serde_json::{json, Value};
use crate::{field::{init_record, lit, painted_strs, panic_msg}, spy::Spy, tok};

pub fn run_history(hist: &Value, out: &mut dyn Write) {
    let h = hist["h"].clone();
    init_record(&h, out);
    let mut bar: Option<(ProgressBar, Spy)> = None;
    let mut keep_mp: Option<indicatif::MultiProgress> = None;
    for (i, op) in hist["ops"].as_array().cloned().unwrap_or_default().iter().enumerate() {
        let mut rec = op.as_object().cloned().unwrap_or_default();
        let name = op["op"].as_str().unwrap_or("");
        let r = catch_unwind(AssertUnwindSafe(|| -> (Vec<Value>, String) {
            match name {
                "new" => {
                    let pre = tok::cells_to_string(&op["pre"]);
                    let suf = tok::cells_to_string(&op["suf"]);
                    let chars = tok::cells_to_string(&op["chars"]);
                    let template = if op["kind"] == "wide" { format!("{}{{wide_bar}}{}", lit(&pre), lit(&suf)) }
                        else if op["dflt"].as_bool().unwrap_or(false) { format!("{}{{bar}}{}", lit(&pre), lit(&suf)) }
                        else { format!("{}{{bar:{}}}{}", lit(&pre), op["n"].as_u64().unwrap_or(0), lit(&suf)) };
                    let style = if op["order"] == "ct" {
                        // the progress characters first, then the template on the style that already carries them
                        match ProgressStyle::default_bar().progress_chars(&chars).template(&template) { Ok(s) => s, Err(e) => return (vec![], format!("{e}")) }
                    } else {
                        match ProgressStyle::with_template(&template) { Ok(s) => s.progress_chars(&chars), Err(e) => return (vec![], format!("{e}")) }
                    };
                    let tw = op["tw"].as_u64().unwrap_or(200) as u16;
                    let tw0 = op.get("tw0").and_then(|x| x.as_u64()).unwrap_or(0) as u16;
                    let len = if op["haslen"].as_bool().unwrap_or(true) { Some(op["len"].as_u64().unwrap_or(0)) } else { None };
                    if tw0 > 0 {
                        // a member of a MultiProgress whose terminal is resized between two paints: every frame is laid out for the width the terminal has then
                        let spy = Spy::new(tw0, 100);
                        let mp = indicatif::MultiProgress::with_draw_target(ProgressDrawTarget::term_like(Box::new(spy.clone())));
                        let pb = mp.add(ProgressBar::with_draw_target(len, ProgressDrawTarget::hidden()).with_finish(ProgressFinish::Abandon).with_style(style));
                        pb.tick();
                        let _ = painted_strs(&spy, 0);
                        spy.set_size(tw, 100);
                        keep_mp = Some(mp);
                        bar = Some((pb, spy));
                    } else {
                    let spy = Spy::new(tw, 100);
                    let pb = ProgressBar::with_draw_target(len, ProgressDrawTarget::term_like(Box::new(spy.clone())))
                        .with_finish(ProgressFinish::Abandon).with_style(style);
                    bar = Some((pb, spy));
                    }
                    (vec![], String::new())
                }
                _ => {
                    let (pb, spy) = bar.as_ref().expect("pos before new");
                    let p = op["pos"].as_u64().unwrap_or(0);
                    pb.update(|s| s.set_pos(p));           // sets the position and redraws (no limiter on a term_like target)
                    (painted_strs(spy, 1), String::new())
                }
            }
        }));
        let (strs, tplerr, panic) = match r { Ok((s, e)) => (s, e, String::new()), Err(e) => (vec![], String::new(), panic_msg(e)) };
        if name != "new" {
            rec.insert("nstr".into(), json!(strs.len()));
            rec.insert("out".into(), strs.first().cloned().unwrap_or(json!([])));
            rec.insert("getpos".into(), json!(bar.as_ref().map(|(pb, _)| pb.position()).unwrap_or(0)));
        }
        rec.insert("tplerr".into(), json!(tplerr));
        rec.insert("panic".into(), json!(panic));
        rec.insert("h".into(), h.clone());
        rec.insert("i".into(), json!(i + 1));
        writeln!(out, "{}", Value::Object(rec)).unwrap();
    }
    drop(bar);
    drop(keep_mp);
}
