//! Debug viewer: run a history and print the emulated screen (scrollback included) after each op.
use serde_json::Value;
use crate::{api, clock, termconf::Emu, tok};

pub fn run(hist: &Value) {
    let cfg = hist.get("cfg").cloned().unwrap_or(serde_json::json!({}));
    clock::reset();
    let mut world = api::World::new(&cfg);
    let w = cfg["w"].as_u64().unwrap_or(80) as u16;
    let h = cfg["h"].as_u64().unwrap_or(24) as u16;
    let mut emu = Emu::new(w, h);
    let base = cfg.get("base").and_then(|x| x.as_u64()).unwrap_or(0);
    use indicatif::TermLike;
    for j in 0..base { let _ = world.spy.write_line(&format!("${}", j)); }
    let feed = |world: &mut api::World, emu: &mut Emu| -> String {
        let (calls, _) = world.spy.take();
        let mut s = String::new();
        for c in calls.as_array().unwrap() {
            emu.call(c);
            let k = c["k"].as_str().unwrap();
            match k { "up" | "down" => s.push_str(&format!("{}{} ", k, c["n"])), "str" | "line" => s.push_str(&format!("{}({:?}) ", k, tok::cells_to_string(&c["c"]))), _ => s.push_str(&format!("{} ", k)) }
        }
        s
    };
    feed(&mut world, &mut emu);
    for (i, op) in hist["ops"].as_array().unwrap().iter().enumerate() {
        let dt = op.get("dt").and_then(|x| x.as_u64()).unwrap_or(0);
        clock::advance(dt * 1000);
        let r = std::panic::catch_unwind(std::panic::AssertUnwindSafe(|| api::exec(&mut world, op)));
        let calls = feed(&mut world, &mut emu);
        println!("--- {} {} b={} m={:?} -> {:?}", i + 1, op["op"].as_str().unwrap_or(""), op.get("b").and_then(|x| x.as_i64()).unwrap_or(0), tok::cells_to_string(op.get("m").unwrap_or(&Value::Null)), r.as_ref().map(|s| s.as_str()).unwrap_or("PANIC"));
        println!("    calls: {}", calls);
        let rows = emu.all_rows();
        let (cr, cc) = emu.p.screen().cursor_position();
        let sb = rows.len() - h as usize;
        let mut last = 0;
        for (j, r) in rows.iter().enumerate() { if r.iter().any(|g| *g != 0) { last = j + 1; } }
        for (j, r) in rows.iter().enumerate().take(std::cmp::max(last, sb + cr as usize + 1)) {
            let s: String = r.iter().map(|g| if *g == 0 { ".".to_string() } else if *g == -1 { "".to_string() } else { tok::cell_to_string(*g) }).collect();
            println!("    |{}|{}", s, if j == sb + cr as usize { format!(" <- cursor col {}", cc) } else { String::new() });
        }
    }
}
