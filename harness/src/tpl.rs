//! Driver for C10 (template parsing is total and preserves literal text).
//! op "tpl":  {tpl: [cells], wf, items, env, tw, colors}  - the template string is given as cells
//! op "soup": {seed, len}                                 - a seeded random string (special ASCII, byte soup, random Unicode)
//! Every string goes to ProgressStyle::with_template (res1) and ProgressStyle::default_bar().template (res2)
//! under catch_unwind: "ok" | "err" | "panic". For well-formed templates (wf) each accepted style is drawn
//! once on a real ProgressBar into a spy terminal of width tw; the painted rows are logged as runs
//! [[cell, count], ...] (count > 1 only for spaces; cells as in tok.rs).
use std::io::Write;
use std::panic::{catch_unwind, AssertUnwindSafe};
use indicatif::{ProgressBar, ProgressDrawTarget, ProgressState, ProgressStyle};
use serde_json::{json, Value};
use crate::{spy::{Call, Spy}, tok};

struct Rng(u64);
impl Rng {
    fn next(&mut self) -> u64 { let mut x = self.0; x ^= x >> 12; x ^= x << 25; x ^= x >> 27; self.0 = x; x.wrapping_mul(0x2545F4914F6CDD1D) }
    fn below(&mut self, n: u64) -> u64 { (self.next() >> 11) % n }
    fn scalar(&mut self) -> char {
        loop {
            let c = match self.below(8) {
                0 => 0x80 + self.below(0x780),                    // 2-byte
                1 | 2 | 3 => 0x800 + self.below(0xF800),          // 3-byte (surrogates rejected below)
                4 => 0x300 + self.below(0x70),                    // combining marks
                5 => 0x1F300 + self.below(0x400),                 // emoji
                6 => 0x2000 + self.below(0x70),                   // spaces, zero-width and bidi controls
                _ => 0x10000 + self.below(0x100000),              // astral
            };
            if let Some(ch) = char::from_u32(c as u32) { return ch; }
        }
    }
}
fn fnv(cells: &[i64]) -> u64 { let mut h: u64 = 0xcbf29ce484222325; for c in cells { h ^= *c as u64; h = h.wrapping_mul(0x100000001b3); } h | 1 }

const PLAIN: &str = "bcdxyzBXZ_-#\"',;()[]@~*";
const SPECIAL: &str = "{}{}{}::!<^>./ \n\t\r0123456789akz";

fn cells_to_string(cells: &[i64]) -> String {
    let mut rng = Rng(fnv(cells));
    let mut s = String::new();
    for &c in cells {
        match c {
            0..=127 => s.push(c as u8 as char),
            233 => s.push('\u{e9}'),
            997 => { let k = rng.below(PLAIN.len() as u64) as usize; s.push(PLAIN.as_bytes()[k] as char); }
            998 => s.push(rng.scalar()),
            _ => s.push_str(&tok::cell_to_string(c)),
        }
    }
    s
}

fn soup(seed: u64, len: usize) -> String {
    let mut rng = Rng(seed.wrapping_mul(0x9E3779B97F4A7C15) | 1);
    for _ in 0..4 { rng.next(); }
    let mut s = String::new();
    while s.chars().count() < len {
        match rng.below(10) {
            0..=3 => { let k = rng.below(SPECIAL.len() as u64) as usize; s.push(SPECIAL.as_bytes()[k] as char); }
            4 | 5 => { let n = 1 + rng.below(4) as usize; let b: Vec<u8> = (0..n).map(|_| rng.below(256) as u8).collect(); s.push_str(&String::from_utf8_lossy(&b)); }
            _ => s.push(rng.scalar()),
        }
    }
    s
}

fn panic_msg(e: Box<dyn std::any::Any + Send>) -> String {
    let m = e.downcast_ref::<String>().cloned().or_else(|| e.downcast_ref::<&str>().map(|s| s.to_string())).unwrap_or_default();
    if m.is_empty() { "panic".into() } else { m }
}

fn parse(f: impl FnOnce() -> Result<ProgressStyle, indicatif::style::TemplateError>) -> (String, Option<ProgressStyle>, String) {
    match catch_unwind(AssertUnwindSafe(f)) {
        Ok(Ok(s)) => ("ok".into(), Some(s), String::new()),
        Ok(Err(_)) => ("err".into(), None, String::new()),
        Err(e) => ("panic".into(), None, panic_msg(e)),
    }
}

/// rows of text as the terminal receives them: write_str appends to the current row, write_line ends it
fn fold_rows(spy: &Spy) -> Vec<String> {
    let g = spy.0.lock().unwrap_or_else(|e| e.into_inner());
    let (mut rows, mut cur, mut open) = (vec![], String::new(), false);
    for (c, _) in g.calls.iter() {
        match c {
            Call::Str(s) => { cur.push_str(s); open = true; }
            Call::Line(s) => { cur.push_str(s); rows.push(std::mem::take(&mut cur)); open = false; }
            _ => {}
        }
    }
    if open { rows.push(cur); }
    rows
}
fn runs(row: &str) -> Value {
    let mut out: Vec<(i64, u64)> = vec![];
    for g in tok::string_to_cells(row) {
        match out.last_mut() { Some((32, n)) if g == 32 => *n += 1, _ => out.push((g, 1)) }
    }
    json!(out.iter().map(|(g, n)| json!([g, n])).collect::<Vec<_>>())
}

fn render(style: ProgressStyle, env: &Value, tw: u16) -> (String, Value, String) {
    let spy = Spy::new(tw, 100);
    let kval = tok::cells_to_string(&env["k"]);
    let (msg, prefix) = (tok::cells_to_string(&env["msg"]), tok::cells_to_string(&env["prefix"]));
    let (pos, len) = (env["pos"].as_u64().unwrap_or(0), env["len"].as_u64().unwrap_or(0));
    let sp = spy.clone();
    let r = catch_unwind(AssertUnwindSafe(move || {
        let style = style.with_key("k", move |_: &ProgressState, w: &mut dyn std::fmt::Write| { let _ = w.write_str(&kval); });
        let pb = ProgressBar::with_draw_target(Some(len), ProgressDrawTarget::term_like(Box::new(sp)))
            .with_style(style).with_message(msg).with_prefix(prefix).with_position(pos);
        pb.tick();
        pb
    }));
    let rows: Vec<Value> = fold_rows(&spy).iter().map(|r| runs(r)).collect();
    match r {
        Ok(pb) => { let _ = catch_unwind(AssertUnwindSafe(move || drop(pb))); ("ok".into(), json!(rows), String::new()) }
        Err(e) => ("panic".into(), json!(rows), panic_msg(e)),
    }
}

pub fn run_history(hist: &Value, out: &mut dyn Write) {
    let h = hist["h"].clone();
    writeln!(out, "{}", json!({"h": h, "i": 0, "op": "init", "panic": ""})).unwrap();
    crate::stylebuild::test_abort(&h);
    for (i, op) in hist["ops"].as_array().cloned().unwrap_or_default().iter().enumerate() {
        let name = op["op"].as_str().unwrap_or("");
        let mut rec = op.as_object().cloned().unwrap_or_default();
        let (s, log_cp) = if name == "soup" {
            (soup(op["seed"].as_u64().unwrap_or(1), op["len"].as_u64().unwrap_or(8) as usize), true)
        } else {
            let cells: Vec<i64> = op["tpl"].as_array().map(|a| a.iter().map(|x| x.as_i64().unwrap_or(63)).collect()).unwrap_or_default();
            let rnd = cells.iter().any(|c| *c == 997 || *c == 998);
            (cells_to_string(&cells), rnd)
        };
        let wf = op["wf"].as_bool().unwrap_or(false);
        console::set_colors_enabled(op["colors"].as_bool().unwrap_or(false));
        let (res1, st1, p1) = parse(|| ProgressStyle::with_template(&s));
        let (res2, st2, p2) = parse(|| ProgressStyle::default_bar().template(&s));
        let tw = op["tw"].as_u64().unwrap_or(80) as u16;
        let env = op.get("env").cloned().unwrap_or(json!({}));
        let mut panic = if !p1.is_empty() { p1 } else { p2 };
        for (k, st) in [("1", st1), ("2", st2)] {
            let (d, rows, p) = match (wf, st) { (true, Some(style)) => render(style, &env, tw), _ => ("none".into(), json!([]), String::new()) };
            if panic.is_empty() { panic = p; }
            rec.insert(format!("draw{k}"), json!(d));
            rec.insert(format!("rows{k}"), rows);
        }
        rec.insert("res1".into(), json!(res1));
        rec.insert("res2".into(), json!(res2));
        rec.insert("cp".into(), if log_cp { json!(s.chars().map(|c| c as u32).collect::<Vec<u32>>()) } else { json!([]) });
        rec.insert("h".into(), h.clone());
        rec.insert("i".into(), json!(i + 1));
        rec.insert("panic".into(), json!(panic));
        for (k, d) in [("tpl", json!([])), ("wf", json!(false)), ("items", json!([])), ("tw", json!(80)), ("colors", json!(false)), ("seed", json!(0)), ("len", json!(0)),
                       ("env", json!({"k": [], "pos": 0, "len": 0, "msg": [], "prefix": []}))] {
            rec.entry(k.to_string()).or_insert(d);
        }
        writeln!(out, "{}", Value::Object(rec)).unwrap();
    }
}

pub fn abort_rec(hist: &Value, i: usize, msg: String) -> Value {
    json!({"h": hist["h"], "i": i, "op": "abort", "res1": "panic", "res2": "panic", "panic": msg})
}
