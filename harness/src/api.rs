//! Generic driver of the public ProgressBar / MultiProgress API: executes one history (a JSON
//! object {h, cfg, ops}) against the real library with a spy terminal and the virtual clock and
//! writes one NDJSON record per operation.
use std::collections::BTreeMap;
use std::io::Write;
use std::panic::{catch_unwind, AssertUnwindSafe};
use indicatif::{MultiProgress, MultiProgressAlignment, ProgressBar, ProgressDrawTarget, ProgressFinish, ProgressStyle, TermLike};
use serde_json::{json, Map, Value};
use crate::{clock, spy::Spy, tok};

pub fn tpl(name: &str) -> String {
    match name {
        "M" => "{msg}",
        "PM" => "{prefix}{msg}",
        "PnM" => "{prefix}\n{msg}",
        "MnC" => "{msg}\n{pos}/{len}",
        "LM" => "ab{msg}",
        "TM" => "a\tb{msg}",
        "TT" => "a\t{pos}\tb",
        "TB" => "{msg}\t{ z\t}",     // a tab next to a brace that stands for itself: the parser sees several literal pieces in a row
        "C" => "{pos}/{len}",
        "MC" => "{msg}{pos}",
        "KM" => "{k}{msg}",
        "KC" => "{k}{msg}",
        "D" => "{wide_bar} {pos}/{len}",
        "CP" => "{pos} {len} {percent}",
        "P" => "{pos}",
        "MP" => "{pos}{msg:7}",
        other => other, // raw template text
    }.to_string()
}

pub fn style(name: &str) -> ProgressStyle {
    let s = ProgressStyle::with_template(&tpl(name)).unwrap();
    if name == "KM" {
        s.with_key("k", |_: &indicatif::ProgressState, w: &mut dyn std::fmt::Write| { let _ = w.write_str("x\ty"); })
    } else if name == "KC" {
        // the same text, written character by character and through format arguments
        s.with_key("k", |_: &indicatif::ProgressState, w: &mut dyn std::fmt::Write| { let _ = w.write_char('x'); let _ = write!(w, "{}", '\t'); let _ = w.write_char('y'); })
    } else { s }
}

/// u64 values travel as five little-endian limbs in base 2^15 (see spec/U64.tla) or as plain numbers.
pub fn u64_of(v: &Value) -> u64 {
    if let Some(a) = v.as_array() {
        let mut r: u64 = 0;
        for (i, l) in a.iter().enumerate() { if i < 5 { r |= (l.as_u64().unwrap_or(0) & 0x7fff).wrapping_shl(15 * i as u32); } }
        r
    } else { v.as_u64().unwrap_or(0) }
}
pub fn limbs(x: u64) -> Value { json!([x & 0x7fff, (x >> 15) & 0x7fff, (x >> 30) & 0x7fff, (x >> 45) & 0x7fff, (x >> 60) & 0x7fff]) }
pub fn small(x: u64) -> i64 { if x < (1 << 30) { x as i64 } else { -1 } }

fn finish_of(name: &str, fm: &Value) -> ProgressFinish {
    match name {
        "AndLeave" => ProgressFinish::AndLeave,
        "Abandon" => ProgressFinish::Abandon,
        "WithMessage" => ProgressFinish::WithMessage(tok::cells_to_string(fm).into()),
        "AbandonWithMessage" => ProgressFinish::AbandonWithMessage(tok::cells_to_string(fm).into()),
        _ => ProgressFinish::AndClear,
    }
}

pub struct World {
    pub spy: Spy,
    pub mp: Option<MultiProgress>,
    pub bars: BTreeMap<i64, Vec<ProgressBar>>,
    pub pipe_r: Option<std::fs::File>,
    pub weak: BTreeMap<i64, indicatif::WeakProgressBar>,
    pub pty_master: Option<std::fs::File>,
    /// one ProgressStyle object per template name, handed out as clones and kept alive, the way applications share a style between bars
    pub styles: BTreeMap<String, ProgressStyle>,
    /// the process's own stdout / stderr were replaced (by a pipe or by the slave side of a pty): targets `stderr_*`, `stdout_*`, `default_*`
    pub std_redirected: bool,
    /// a second, hidden MultiProgress (bars can be moved into it)
    pub mp2: Option<MultiProgress>,
}

/// Is this target name one of the process's own streams (`ProgressDrawTarget::stderr()`, `stdout()`, or the default target of
/// `ProgressBar::new` / `new_spinner` / `no_length` / `MultiProgress::new`), and over what: a pipe (not a tty) or a pty?
pub fn std_target(t: &str) -> Option<(&str, bool)> {
    for k in ["stderr", "stdout", "default"] {
        if t == format!("{k}_pipe") { return Some((k, false)); }
        if t == format!("{k}_pty") { return Some((k, true)); }
    }
    None
}
pub fn target_hidden(t: &str) -> bool { t == "hidden" || t == "pipe" || matches!(std_target(t), Some((_, false))) }
pub fn target_pty(t: &str) -> bool { t == "pty" || matches!(std_target(t), Some((_, true))) }

/// A console::Term over the slave side of a pty (so `is_term()` is true and the size comes from the window size we set); the
/// master side is read back after every operation and decoded into the same call alphabet the spy terminal records.
fn pty_term(w: u16, h: u16) -> (console::Term, std::fs::File) {
    use std::os::fd::FromRawFd;
    let (mut m, mut sl) = (0i32, 0i32);
    let ws = libc::winsize { ws_row: h, ws_col: w, ws_xpixel: 0, ws_ypixel: 0 };
    unsafe {
        libc::openpty(&mut m, &mut sl, std::ptr::null_mut(), std::ptr::null(), &ws);
        let mut t: libc::termios = std::mem::zeroed();
        libc::tcgetattr(sl, &mut t);
        libc::cfmakeraw(&mut t);                        // no ONLCR: a newline stays a newline
        libc::tcsetattr(sl, libc::TCSANOW, &t);
        let fl = libc::fcntl(m, libc::F_GETFL);
        libc::fcntl(m, libc::F_SETFL, fl | libc::O_NONBLOCK);
    }
    let master = unsafe { std::fs::File::from_raw_fd(m) };
    let slave = unsafe { std::fs::File::from_raw_fd(sl) };
    let slave2 = slave.try_clone().unwrap();
    (console::Term::read_write_pair(slave2, slave), master)
}

/// bytes written by console::Term -> TermLike calls (as JSON, like spy::call_json)
pub fn decode_term_bytes(bytes: &[u8]) -> Vec<Value> {
    let s = String::from_utf8_lossy(bytes).to_string();
    let cs: Vec<char> = s.chars().collect();
    let mut out: Vec<Value> = vec![];
    let mut text = String::new();
    let flush_text = |text: &mut String, out: &mut Vec<Value>, line: bool| {
        if line { out.push(json!({"k": "line", "n": 0, "c": tok::string_to_cells(text), "u": 0})); }
        else if !text.is_empty() { out.push(json!({"k": "str", "n": 0, "c": tok::string_to_cells(text), "u": 0})); }
        text.clear();
    };
    let mut i = 0;
    while i < cs.len() {
        let c = cs[i];
        if c == '\x1b' && i + 1 < cs.len() && cs[i + 1] == '[' {
            let mut j = i + 2;
            let mut num = String::new();
            while j < cs.len() && (cs[j].is_ascii_digit() || cs[j] == ';') { num.push(cs[j]); j += 1; }
            if j < cs.len() && (cs[j] == 'A' || cs[j] == 'B' || cs[j] == 'C' || cs[j] == 'D' || cs[j] == 'K') {
                let n: u64 = num.parse().unwrap_or(1);
                // "\r" + CSI 2K is clear_line: the carriage return was put into the text just before
                if cs[j] == 'K' {
                    if text.ends_with('\r') { text.pop(); }
                    flush_text(&mut text, &mut out, false);
                    out.push(json!({"k": "clear", "n": 0, "c": [], "u": 0}));
                } else {
                    flush_text(&mut text, &mut out, false);
                    let k = match cs[j] { 'A' => "up", 'B' => "down", 'C' => "right", _ => "left" };
                    out.push(json!({"k": k, "n": n, "c": [], "u": 0}));
                }
                i = j + 1;
                continue;
            }
        }
        if c == '\n' { flush_text(&mut text, &mut out, true); i += 1; continue; }
        text.push(c);
        i += 1;
    }
    flush_text(&mut text, &mut out, false);
    if !out.is_empty() { out.push(json!({"k": "flush", "n": 0, "c": [], "u": 0})); }
    out
}

fn pipe_term() -> (console::Term, std::fs::File) {
    use std::os::fd::FromRawFd;
    let mut fds = [0i32; 2];
    unsafe { libc::pipe(fds.as_mut_ptr()); }
    unsafe {
        let fl = libc::fcntl(fds[0], libc::F_GETFL);
        libc::fcntl(fds[0], libc::F_SETFL, fl | libc::O_NONBLOCK);
    }
    let r = unsafe { std::fs::File::from_raw_fd(fds[0]) };
    let w = unsafe { std::fs::File::from_raw_fd(fds[1]) };
    let w2 = w.try_clone().unwrap();
    (console::Term::read_write_pair(w2, w), r)
}

impl World {
    /// Replace file descriptors 1 and 2 of this (forked) process by the write end of a pipe or by the slave side of a pty whose
    /// window size is the configured terminal size; what the library writes there is read back like for `pipe` / `pty`.
    pub fn redirect_std(&mut self, pty: bool) {
        use std::os::fd::{AsRawFd, FromRawFd};
        if self.std_redirected { return; }
        self.std_redirected = true;
        if pty {
            let (w, h) = { let g = self.spy.0.lock().unwrap(); (g.w, g.h) };
            let (mut m, mut sl) = (0i32, 0i32);
            let ws = libc::winsize { ws_row: h, ws_col: w, ws_xpixel: 0, ws_ypixel: 0 };
            unsafe {
                libc::openpty(&mut m, &mut sl, std::ptr::null_mut(), std::ptr::null(), &ws);
                let mut t: libc::termios = std::mem::zeroed();
                libc::tcgetattr(sl, &mut t);
                libc::cfmakeraw(&mut t);
                libc::tcsetattr(sl, libc::TCSANOW, &t);
                let fl = libc::fcntl(m, libc::F_GETFL);
                libc::fcntl(m, libc::F_SETFL, fl | libc::O_NONBLOCK);
                libc::dup2(sl, 1); libc::dup2(sl, 2); libc::close(sl);
                self.pty_master = Some(std::fs::File::from_raw_fd(m));
            }
        } else {
            let mut fds = [0i32; 2];
            unsafe {
                libc::pipe(fds.as_mut_ptr());
                let fl = libc::fcntl(fds[0], libc::F_GETFL);
                libc::fcntl(fds[0], libc::F_SETFL, fl | libc::O_NONBLOCK);
                libc::dup2(fds[1], 1); libc::dup2(fds[1], 2); libc::close(fds[1]);
                self.pipe_r = Some(std::fs::File::from_raw_fd(fds[0]));
            }
        }
        let _ = self.pipe_r.as_ref().map(|f| f.as_raw_fd());
    }
    pub fn target(&mut self, t: &str, hz: u64) -> ProgressDrawTarget {
        if let Some((which, pty)) = std_target(t) {
            self.redirect_std(pty);
            return match (which, hz) {
                ("stdout", 0) => ProgressDrawTarget::stdout(),
                ("stdout", _) => ProgressDrawTarget::stdout_with_hz(hz as u8),
                (_, 0) => ProgressDrawTarget::stderr(),
                (_, _) => ProgressDrawTarget::stderr_with_hz(hz as u8),
            };
        }
        match t {
            "hidden" => ProgressDrawTarget::hidden(),
            "spy_hz" => ProgressDrawTarget::term_like_with_hz(Box::new(self.spy.clone()), hz as u8),
            "pipe" => { let (t, r) = pipe_term(); self.pipe_r = Some(r); ProgressDrawTarget::term(t, if hz == 0 { 20 } else { hz as u8 }) }
            "pty" => { let (w, h) = { let g = self.spy.0.lock().unwrap(); (g.w, g.h) }; let (t, m) = pty_term(w, h); self.pty_master = Some(m);
                       ProgressDrawTarget::term(t, if hz == 0 { 255 } else { hz as u8 }) }
            _ => ProgressDrawTarget::term_like(Box::new(self.spy.clone())),
        }
    }
    pub fn new(cfg: &Value) -> World {
        let w = cfg["w"].as_u64().unwrap_or(80) as u16;
        let h = cfg["h"].as_u64().unwrap_or(24) as u16;
        let mut world = World { spy: Spy::new(w, h), mp: None, bars: BTreeMap::new(), pipe_r: None, weak: BTreeMap::new(), pty_master: None, styles: BTreeMap::new(), std_redirected: false, mp2: None };
        if let Some(m) = cfg.get("mp").and_then(|m| m.as_object()) {
            let t = m.get("target").and_then(|x| x.as_str()).unwrap_or("spy").to_string();
            let hz = m.get("hz").and_then(|x| x.as_u64()).unwrap_or(0);
            // `default_*`: the constructor that picks the target itself (stderr)
            let mp = if matches!(std_target(&t), Some(("default", _))) { let _ = world.target(&t, hz); MultiProgress::new() }
                     else { let tgt = world.target(&t, hz); MultiProgress::with_draw_target(tgt) };
            if m.get("align").and_then(|x| x.as_str()) == Some("bottom") { mp.set_alignment(MultiProgressAlignment::Bottom); }
            world.mp = Some(mp);
        }
        world
    }
    pub fn shared_style(&mut self, name: &str) -> ProgressStyle { self.styles.entry(name.to_string()).or_insert_with(|| style(name)).clone() }
    pub fn bar(&self, b: i64) -> Option<&ProgressBar> { self.bars.get(&b).and_then(|v| v.first()) }
    /// calls decoded from what the real Term wrote to the pty since the last call
    pub fn pty_calls(&mut self) -> Vec<Value> {
        use std::io::Read;
        let mut all: Vec<u8> = vec![];
        if let Some(m) = self.pty_master.as_mut() {
            let mut buf = [0u8; 65536];
            loop { match m.read(&mut buf) { Ok(0) => break, Ok(k) => all.extend_from_slice(&buf[..k]), Err(_) => break } }
        }
        decode_term_bytes(&all)
    }
    fn pipe_bytes(&mut self) -> usize {
        use std::io::Read;
        let mut n = 0;
        if let Some(r) = self.pipe_r.as_mut() {
            let mut buf = [0u8; 4096];
            loop { match r.read(&mut buf) { Ok(0) => break, Ok(k) => n += k, Err(_) => break } }
        }
        n
    }
}

fn make_bar(world: &mut World, op: &Value) -> ProgressBar {
    let len = op.get("len").map(|l| if l.is_i64() && l.as_i64().unwrap() < 0 { None } else { Some(u64_of(l)) }).unwrap_or(Some(10));
    let t = op.get("target").and_then(|x| x.as_str()).unwrap_or("spy").to_string();
    let hz = op.get("hz").and_then(|x| x.as_u64()).unwrap_or(0);
    let mut pb = if op["op"] == "new" && matches!(std_target(&t), Some(("default", _))) {
        // the constructors that pick the target themselves (stderr): new, new_spinner, no_length
        let _ = world.target(&t, hz);
        // bars the iterator adaptors create themselves: `.progress_count(len)` / `.progress()` (the handle is the adaptor's public `progress` field)
        let via = op.get("via").and_then(|x| x.as_str()).unwrap_or("");
        if via == "progress_count" { use indicatif::ProgressIterator; (0..0u64).progress_count(len.unwrap_or(0)).progress.clone() }
        else if via == "progress" { use indicatif::ProgressIterator; (0..(len.unwrap_or(0).min(1 << 20) as usize)).progress().progress.clone() }
        else { match len { Some(l) => ProgressBar::new(l), None => if op.get("b").and_then(|x| x.as_i64()).unwrap_or(0) % 2 == 1 { ProgressBar::new_spinner() } else { ProgressBar::no_length() } } }
    } else {
        let tgt = if op["op"] == "new" { world.target(&t, hz) } else { ProgressDrawTarget::hidden() };
        ProgressBar::with_draw_target(len, tgt)
    };
    let mfirst = op.get("mfirst").and_then(|x| x.as_bool()).unwrap_or(false);
    if mfirst {
        // the texts before the tab width and the style: every builder order must expand consistently (C16)
        if let Some(m) = op.get("m0") { if m.as_array().map(|a| !a.is_empty()).unwrap_or(false) { pb = pb.with_message(tok::cells_to_string(m)); } }
        if let Some(m) = op.get("p0") { if m.as_array().map(|a| !a.is_empty()).unwrap_or(false) { pb = pb.with_prefix(tok::cells_to_string(m)); } }
    }
    if let Some(tw) = op.get("tabw").and_then(|x| x.as_u64()) { if op.get("tabw_first").and_then(|x| x.as_bool()).unwrap_or(false) { pb = pb.with_tab_width(tw as usize); } }
    if let Some(name) = op.get("tpl").and_then(|x| x.as_str()) { pb = pb.with_style(world.shared_style(name)); }
    if let Some(tw) = op.get("tabw").and_then(|x| x.as_u64()) { if !op.get("tabw_first").and_then(|x| x.as_bool()).unwrap_or(false) { pb = pb.with_tab_width(tw as usize); } }
    if let Some(f) = op.get("fin").and_then(|x| x.as_str()) { pb = pb.with_finish(finish_of(f, op.get("fm").unwrap_or(&Value::Null))); }
    if !mfirst {
        if let Some(m) = op.get("m0") { if m.as_array().map(|a| !a.is_empty()).unwrap_or(false) { pb = pb.with_message(tok::cells_to_string(m)); } }
        if let Some(m) = op.get("p0") { if m.as_array().map(|a| !a.is_empty()).unwrap_or(false) { pb = pb.with_prefix(tok::cells_to_string(m)); } }
    }
    if let Some(p) = op.get("pos0") { pb = pb.with_position(u64_of(p)); }
    pb
}

/// Execute one operation. Returns an optional "ret" string.
pub fn exec(world: &mut World, op: &Value) -> String {
    let name = op["op"].as_str().unwrap_or("");
    let b = op.get("b").and_then(|x| x.as_i64()).unwrap_or(0);
    let n = op.get("n").map(u64_of).unwrap_or(0);
    let m = || tok::cells_to_string(op.get("m").unwrap_or(&Value::Null));
    macro_rules! pb { () => { match world.bar(b) { Some(p) => p.clone(), None => return "nobar".into() } } }
    match name {
        "new" => { let pb = make_bar(world, op); world.bars.insert(b, vec![pb]); }
        "add" | "insert" | "insert_from_back" | "insert_before" | "insert_after" => {
            let pb = make_bar(world, op);
            let mp = world.mp.as_ref().unwrap().clone();
            let idx = op.get("idx").and_then(|x| x.as_u64()).unwrap_or(0) as usize;
            let other = op.get("b2").and_then(|x| x.as_i64()).unwrap_or(0);
            let pb = match name {
                "add" => mp.add(pb),
                "insert" => mp.insert(idx, pb),
                "insert_from_back" => mp.insert_from_back(idx, pb),
                "insert_before" => { let o = match world.bar(other) { Some(o) => o.clone(), None => return "nobar".into() }; mp.insert_before(&o, pb) }
                _ => { let o = match world.bar(other) { Some(o) => o.clone(), None => return "nobar".into() }; mp.insert_after(&o, pb) }
            };
            world.bars.insert(b, vec![pb]);
        }
        "readd" => { let p = pb!(); let mp = world.mp.as_ref().unwrap().clone(); let _ = mp.add(p); }
        "tick" => pb!().tick(),
        "burst" => { let p = pb!(); for _ in 0..n { p.tick(); } }
        "inc" => pb!().inc(n),
        "dec" => pb!().dec(n),
        "set_position" => pb!().set_position(n),
        // a seek through the Seek adaptor (wrap_read over a cursor): the bar is moved to the new offset
        "seek_to" => { use std::io::Seek; let mut w = pb!().wrap_read(std::io::Cursor::new(vec![0u8; 64])); let _ = w.seek(std::io::SeekFrom::Start(n)); }
        "set_length" => pb!().set_length(n),
        "unset_length" => pb!().unset_length(),
        "inc_length" => pb!().inc_length(n),
        "dec_length" => pb!().dec_length(n),
        "set_message" => pb!().set_message(m()),
        "set_prefix" => pb!().set_prefix(m()),
        "set_style" => { let st = world.shared_style(op["tpl"].as_str().unwrap_or("M")); pb!().set_style(st) }
        "set_tab_width" => pb!().set_tab_width(n as usize),
        // take the bar's current style, give it a new template, put it back (keeps keys and tab width of the style object)
        "restyle" => { let p = pb!(); let name = op["tpl"].as_str().unwrap_or("M"); let kept = p.style(); let st = kept.clone().template(&tpl(name)).unwrap(); p.set_style(st); world.styles.insert(format!("restyled-{}-{}", b, world.styles.len()), kept); }
        "copy_style" => { let other = op.get("b2").and_then(|x| x.as_i64()).unwrap_or(0); let st = match world.bar(other) { Some(o) => o.style(), None => return "nobar".into() }; pb!().set_style(st); }
        "reset" => pb!().reset(),
        "reset_eta" => pb!().reset_eta(),
        "reset_elapsed" => pb!().reset_elapsed(),
        "finish" => pb!().finish(),
        "finish_with_message" => pb!().finish_with_message(m()),
        "finish_and_clear" => pb!().finish_and_clear(),
        "abandon" => pb!().abandon(),
        "abandon_with_message" => pb!().abandon_with_message(m()),
        "finish_using_style" => pb!().finish_using_style(),
        "force_draw" => pb!().force_draw(),
        "fburst" => { let p = pb!(); for _ in 0..n { p.force_draw(); } }
        // the bar is added to another MultiProgress, one that draws to a hidden target
        "to_hidden_mp" => { let p = pb!(); if world.mp2.is_none() { world.mp2 = Some(MultiProgress::with_draw_target(ProgressDrawTarget::hidden())); } let _ = world.mp2.as_ref().unwrap().add(p); }
        "update_pos" => { pb!().update(|s| s.set_pos(n)); }
        "update_len" => { pb!().update(|s| s.set_len(n)); }
        "println" => pb!().println(m()),
        "suspend" => {
            let spy = world.spy.clone();
            let text = m();
            pb!().suspend(|| { spy.set_user(true); for l in text.split('\n') { let _ = spy.write_line(l); } spy.set_user(false); });
        }
        "clone" => { let p = pb!(); world.bars.get_mut(&b).unwrap().push(p); }
        "drop_one" => { if let Some(v) = world.bars.get_mut(&b) { if v.len() > 1 { v.pop(); } } }
        "drop" => { world.bars.remove(&b); }
        "iter" => {
            // iterator-driven completion: wrap 0..n and exhaust it
            let p = pb!();
            let it = p.wrap_iter(0..n);
            let mut c = 0u64;
            // external iteration (`for`), or internal iteration through Iterator::fold (count, for_each): the adaptor is consumed by value either way
            match op.get("how").and_then(|x| x.as_str()).unwrap_or("for") {
                "count" => { c = it.count() as u64; }
                "for_each" => { it.for_each(|_| c += 1); }
                _ => { for _ in it { c += 1; } }
            }
            return format!("{c}");
        }
        "set_target" => { let t = op.get("target").and_then(|x| x.as_str()).unwrap_or("spy").to_string(); let hz = op.get("hz").and_then(|x| x.as_u64()).unwrap_or(0); let tg = world.target(&t, hz); pb!().set_draw_target(tg); }
        "is_hidden" => { return format!("{}", pb!().is_hidden()); }
        "downgrade" => { let w = pb!().downgrade(); world.weak.insert(b, w); }
        "upgrade" => { return match world.weak.get(&b) { None => "noweak".into(), Some(w) => match w.upgrade() { Some(p) => { drop(p); "some".into() } None => "none".into() } }; }
        "mp_println" => { return match world.mp.as_ref().unwrap().println(m()) { Ok(_) => "ok".into(), Err(_) => "err".into() }; }
        "mp_suspend" => {
            let spy = world.spy.clone();
            let text = m();
            world.mp.as_ref().unwrap().suspend(|| { spy.set_user(true); for l in text.split('\n') { let _ = spy.write_line(l); } spy.set_user(false); });
        }
        "mp_clear" => { return match world.mp.as_ref().unwrap().clear() { Ok(_) => "ok".into(), Err(_) => "err".into() }; }
        "mp_remove" => { let p = pb!(); world.mp.as_ref().unwrap().remove(&p); }
        "mp_set_alignment" => { world.mp.as_ref().unwrap().set_alignment(if op["a"] == "bottom" { MultiProgressAlignment::Bottom } else { MultiProgressAlignment::Top }); }
        "mp_set_move_cursor" => { world.mp.as_ref().unwrap().set_move_cursor(n != 0); }
        "mp_set_target" => { let t = op.get("target").and_then(|x| x.as_str()).unwrap_or("spy").to_string(); let hz = op.get("hz").and_then(|x| x.as_u64()).unwrap_or(0); let tg = world.target(&t, hz);
                             world.mp.as_ref().unwrap().set_draw_target(tg); }
        "mp_is_hidden" => { return format!("{}", world.mp.as_ref().unwrap().is_hidden()); }
        "resize" => { world.spy.set_size(op["w"].as_u64().unwrap_or(80) as u16, op["h"].as_u64().unwrap_or(24) as u16); }
        "fail_at" => { let mut g = world.spy.0.lock().unwrap(); let base = g.ncalls; g.fail_at = Some(base + n as usize); g.fail_sticky = op.get("sticky").and_then(|x| x.as_bool()).unwrap_or(false); }
        "fail_off" => { let mut g = world.spy.0.lock().unwrap(); g.fail_at = None; }
        "write" => { let spy = world.spy.clone(); spy.set_user(true); for l in m().split('\n') { let _ = spy.write_line(l); } spy.set_user(false); }
        "nop" | "init" => {}
        _ => return "unknown-op".into(),
    }
    "ok".into()
}

pub fn getters(world: &World, b: i64) -> Value {
    match world.bar(b) {
        None => json!({"has": false, "pos": [0,0,0,0,0], "pos_s": 0, "len": [0,0,0,0,0], "len_s": 0, "haslen": false, "msg": [], "prefix": [], "fin": false, "elapsed_us": 0}),
        Some(p) => {
            let r = catch_unwind(AssertUnwindSafe(|| {
                let pos = p.position();
                let len = p.length();
                json!({"has": true, "pos": limbs(pos), "pos_s": small(pos), "len": limbs(len.unwrap_or(0)), "len_s": small(len.unwrap_or(0)),
                       "haslen": len.is_some(), "msg": tok::cells_json(&p.message()), "prefix": tok::cells_json(&p.prefix()), "fin": p.is_finished(),
                       "elapsed_us": small(p.elapsed().as_micros() as u64)})
            }));
            r.unwrap_or_else(|_| json!({"has": true, "poisoned": true, "pos": [0,0,0,0,0], "pos_s": -2, "len": [0,0,0,0,0], "len_s": -2, "haslen": false, "msg": [], "prefix": [], "fin": false, "elapsed_us": 0}))
        }
    }
}

/// Run one history, appending records to `out`.
pub fn run_history(hist: &Value, out: &mut dyn Write) {
    let h = hist["h"].clone();
    let cfg = hist.get("cfg").cloned().unwrap_or(json!({}));
    clock::reset();
    let mut world = World::new(&cfg);
    // record 0: init (carries the configuration and the pre-filled base rows)
    let base = cfg.get("base").and_then(|x| x.as_u64()).unwrap_or(0);
    world.spy.set_user(true);
    for j in 0..base { let _ = world.spy.write_line(&format!("${}", j)); }
    world.spy.set_user(false);
    let (calls, q) = world.spy.take();
    let mut rec = Map::new();
    rec.insert("h".into(), h.clone());
    rec.insert("i".into(), json!(0));
    rec.insert("op".into(), json!("init"));
    let mpo = cfg.get("mp").and_then(|m| m.as_object());
    let mphid = mpo.map(|m| target_hidden(m.get("target").and_then(|x| x.as_str()).unwrap_or("spy"))).unwrap_or(false);
    let align = mpo.and_then(|m| m.get("align")).and_then(|x| x.as_str()).unwrap_or("top").to_string();
    rec.insert("cfg".into(), json!({"w": cfg["w"].as_u64().unwrap_or(80), "h": cfg["h"].as_u64().unwrap_or(24), "multi": mpo.is_some(), "mphid": mphid, "align": align,
        "pty": mpo.map(|m| target_pty(m.get("target").and_then(|x| x.as_str()).unwrap_or("spy"))).unwrap_or(false),
        "hz": mpo.filter(|m| m.get("target").and_then(|x| x.as_str()) == Some("spy_hz")).and_then(|m| m.get("hz")).and_then(|x| x.as_u64()).unwrap_or(0),
        "x": cfg.get("x").cloned().unwrap_or(json!({}))}));
    rec.insert("calls".into(), calls);
    rec.insert("q".into(), json!(q));
    rec.insert("t".into(), json!(0));
    rec.insert("b".into(), json!(0));
    rec.insert("ret".into(), json!("ok"));
    rec.insert("panic".into(), json!(""));
    rec.insert("get".into(), getters(&world, 0));
    writeln!(out, "{}", Value::Object(rec)).unwrap();
    let ops = hist["ops"].as_array().cloned().unwrap_or_default();
    for (i, op) in ops.iter().enumerate() {
        let dt = op.get("dt").and_then(|x| x.as_u64()).unwrap_or(0); // microseconds
        clock::advance(dt * 1000 + op.get("dtn").and_then(|x| x.as_u64()).unwrap_or(0) + op.get("dts").and_then(|x| x.as_u64()).unwrap_or(0) * 1_000_000_000);
        let failed_before = world.spy.0.lock().unwrap_or_else(|e| e.into_inner()).failed;
        let r = catch_unwind(AssertUnwindSafe(|| exec(&mut world, op)));
        let (ret, panic) = match r {
            Ok(s) => (s, String::new()),
            Err(e) => {
                let msg = e.downcast_ref::<String>().cloned().or_else(|| e.downcast_ref::<&str>().map(|s| s.to_string())).unwrap_or_else(|| "panic".into());
                world.spy.set_user(false);
                ("panic".to_string(), if msg.is_empty() { "panic".into() } else { msg })
            }
        };
        let b = op.get("b").and_then(|x| x.as_i64()).unwrap_or(0);
        // optional probe (C07): read fraction()/pos()/len() through update(), which also redraws
        let mut frac: i64 = -1;
        if cfg.get("probe").and_then(|x| x.as_bool()).unwrap_or(false) && panic.is_empty() {
            if let Some(p) = world.bars.get(&b).and_then(|v| v.first()).cloned() {
                let r = catch_unwind(AssertUnwindSafe(|| { let mut f = 0f32; p.update(|s| { f = s.fraction(); }); f }));
                if let Ok(f) = r { frac = if f.is_nan() { -2 } else { (f as f64 * 1073741824.0).floor() as i64 }; }
            }
        }
        let (mut calls, q) = world.spy.take();
        if world.pty_master.is_some() { let mut extra = world.pty_calls(); calls.as_array_mut().unwrap().append(&mut extra); }
        let shown: Vec<i64> = calls.as_array().unwrap().iter().rev()
            .filter(|c| c["k"] == "str" && c["u"] == 0)
            .map(|c| c["c"].as_array().unwrap().iter().map(|x| x.as_i64().unwrap()).collect::<Vec<i64>>())
            .find(|c| c.iter().any(|g| *g != 32))
            .map(|mut c| { while c.last() == Some(&32) { c.pop(); } c })     // behind a real Term the right-edge filler arrives in the same write
            .unwrap_or_default();
        let mut rec = op.as_object().cloned().unwrap_or_default();
        rec.insert("frac".into(), json!(frac));
        rec.insert("shown".into(), json!(shown));
        rec.insert("h".into(), h.clone());
        rec.insert("i".into(), json!(i + 1));
        rec.insert("calls".into(), calls);
        rec.insert("q".into(), json!(q));
        rec.insert("t".into(), json!(clock::now_rel() / 1000));
        rec.insert("tn".into(), limbs(clock::now_rel()));
        rec.insert("ret".into(), json!(ret));
        rec.insert("panic".into(), json!(panic));
        rec.insert("get".into(), getters(&world, b));
        rec.insert("pipe".into(), json!(world.pipe_bytes()));
        let failed_now = world.spy.0.lock().unwrap_or_else(|e| e.into_inner()).failed;
        rec.insert("failed".into(), json!(failed_now - failed_before));
        // fill defaults so that the monitor can read every field on every record
        for (k, d) in [("b", json!(0)), ("n", json!(0)), ("m", json!([])), ("tpl", json!("")), ("fin", json!("")), ("fm", json!([])), ("len", json!(0)), ("idx", json!(0)), ("b2", json!(0)), ("a", json!("")), ("dt", json!(0)),
                       ("m0", json!([])), ("p0", json!([])), ("pos0", json!(0)), ("tabw", json!(8)), ("target", json!("spy"))] {
            rec.entry(k.to_string()).or_insert(d);
        }
        writeln!(out, "{}", Value::Object(rec)).unwrap();
    }
    // implicit end: drop everything (not recorded; histories that care use explicit drop ops)
    let r = catch_unwind(AssertUnwindSafe(|| { world.bars.clear(); world.mp = None; }));
    let _ = r;
}
