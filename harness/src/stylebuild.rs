//! Driver for C14 (every style the builder accepts can be rendered): replays a sequence of
//! ProgressStyle builder calls and then draws with the resulting style on real ProgressBars,
//! everything under catch_unwind. One NDJSON record per operation:
//!   res = "ok" | "err" (TemplateError) | "panic" | "skip" (no style / no bar to operate on).
//! Argument tokens (see spec/StyleBuilder.tla): 1 '#', 2 '>', 3 '-', 4 U+4E16, 5 U+200B, 6 'e' U+0301, 7 U+754C.
use std::fs::File;
use std::io::{BufRead, BufWriter, Seek, Write};
use std::panic::{catch_unwind, AssertUnwindSafe};
use std::time::{Duration, Instant};
use indicatif::{ProgressBar, ProgressDrawTarget, ProgressState, ProgressStyle};
use serde_json::{json, Value};
use crate::{api::u64_of, spy::Spy};

fn tok(t: i64) -> &'static str {
    match t { 1 => "#", 2 => ">", 3 => "-", 4 => "\u{4e16}", 5 => "\u{200b}", 6 => "e\u{301}", 7 => "\u{754c}", _ => "?" }
}
fn toks(v: &Value) -> String { v.as_array().map(|a| a.iter().map(|t| tok(t.as_i64().unwrap_or(0))).collect()).unwrap_or_default() }

pub fn template(name: &str) -> &'static str {
    match name {
        "S" => "{spinner}",
        "B" => "{bar:4}",
        "W" => "{wide_bar}",
        "SB" => "{spinner}{bar}",
        "SBWM" => "{spinner} {bar:4} {wide_bar} {msg} {k}",
        "B0" => "{bar:0}|{spinner:1!}",
        "WW" => "{wide_msg}{wide_bar}{spinner:>3}",
        "WnM" => "{wide_bar} {pos}/{len}\n{msg}\n{spinner}",          // a wide element on a line that is not the last
        "MnW" => "{msg}\n\n{prefix}{wide_msg}|\n{bar:3}",
        "E" => "{eta} {eta_precise} {duration} {duration_precise} {per_sec} {elapsed} {elapsed_precise} {bytes_per_sec} {human_len} {human_pos} {total_bytes} {percent_precise}|{spinner}",     // every time / rate key
        "L" => "{msg:300}|{spinner:^600}|{bar:260}|{prefix:>257}",     // fields wider than any fixed buffer of blanks
        "bad" => "{:",
        _ => "{spinner} {bar} {msg}",
    }
}

fn panic_msg(e: Box<dyn std::any::Any + Send>) -> String {
    let m = e.downcast_ref::<String>().cloned().or_else(|| e.downcast_ref::<&str>().map(|s| s.to_string())).unwrap_or_default();
    if m.is_empty() { "panic".into() } else { m }
}

struct World { style: Option<ProgressStyle>, bar: Option<(ProgressBar, Spy)> }

/// returns (res, panic message)
fn exec(w: &mut World, op: &Value) -> (String, String) {
    let name = op["op"].as_str().unwrap_or("");
    macro_rules! build { ($f:expr) => {{
        let s = match w.style.take() { Some(s) => s, None => return ("skip".into(), String::new()) };
        match catch_unwind(AssertUnwindSafe(move || $f(s))) {
            Ok(s) => { w.style = Some(s); ("ok".into(), String::new()) }
            Err(e) => ("panic".into(), panic_msg(e)),
        }
    }}; }
    macro_rules! onbar { ($f:expr) => {{
        let (pb, spy) = match w.bar.as_ref() { Some(b) => b, None => return ("skip".into(), String::new()) };
        match catch_unwind(AssertUnwindSafe(|| $f(pb, spy))) {
            Ok(()) => ("ok".into(), String::new()),
            Err(e) => ("panic".into(), panic_msg(e)),
        }
    }}; }
    match name {
        "with_template" => {
            w.style = None;
            let t = template(op["tpl"].as_str().unwrap_or(""));
            match catch_unwind(|| ProgressStyle::with_template(t)) {
                Ok(Ok(s)) => { w.style = Some(s); ("ok".into(), String::new()) }
                Ok(Err(e)) => ("err".into(), e.to_string()),
                Err(e) => ("panic".into(), panic_msg(e)),
            }
        }
        "template" => {
            let s = match w.style.take() { Some(s) => s, None => return ("skip".into(), String::new()) };
            let t = template(op["tpl"].as_str().unwrap_or(""));
            match catch_unwind(AssertUnwindSafe(move || s.template(t))) {
                Ok(Ok(s)) => { w.style = Some(s); ("ok".into(), String::new()) }
                Ok(Err(e)) => ("err".into(), e.to_string()),
                Err(e) => ("panic".into(), panic_msg(e)),
            }
        }
        "tick_chars" => { let a = toks(&op["arg"]); build!(|s: ProgressStyle| s.tick_chars(&a)) }
        "tick_strings" => {
            let v: Vec<String> = op["args"].as_array().map(|a| a.iter().map(toks).collect()).unwrap_or_default();
            let r: Vec<&str> = v.iter().map(|s| s.as_str()).collect();
            build!(|s: ProgressStyle| s.tick_strings(&r))
        }
        "progress_chars" => { let a = toks(&op["arg"]); build!(|s: ProgressStyle| s.progress_chars(&a)) }
        "with_key" => build!(|s: ProgressStyle| s.with_key("k", |_: &ProgressState, w: &mut dyn std::fmt::Write| { let _ = w.write_str("KV"); })),
        "bar" => {
            // drop the previous bar first (its Drop may draw once more)
            if let Some(b) = w.bar.take() { let _ = catch_unwind(AssertUnwindSafe(move || drop(b))); }
            let style = match w.style.as_ref() { Some(s) => s.clone(), None => return ("skip".into(), String::new()) };
            let width = op["w"].as_u64().unwrap_or(10) as u16;
            let len = op["len"].as_i64().unwrap_or(-1);
            let spy = Spy::new(width, 50);
            let sp = spy.clone();
            match catch_unwind(AssertUnwindSafe(move || {
                let pb = ProgressBar::with_draw_target(if len < 0 { None } else { Some(len as u64) }, ProgressDrawTarget::term_like(Box::new(sp)));
                pb.set_style(style);
                pb.set_message("xy\u{e9}\u{fc}\u{e9}\u{fc}\u{e9}\u{fc}\u{e9}\u{fc}\u{e9}\u{fc}\u{e9}\u{fc}");      // one-column letters of two bytes each: a cut of a truncating field lands inside them
                pb
            })) {
                Ok(pb) => { w.bar = Some((pb, spy)); ("ok".into(), String::new()) }
                Err(e) => ("panic".into(), panic_msg(e)),
            }
        }
        // a bar whose rate is far below one step per second under a length of u64::MAX (virtual clock: two seconds pass before the only step):
        // the estimates (eta, duration) are astronomically large and every time key must still render
        "slow" => {
            if let Some(b) = w.bar.take() { let _ = catch_unwind(AssertUnwindSafe(move || drop(b))); }
            let style = match w.style.as_ref() { Some(s) => s.clone(), None => return ("skip".into(), String::new()) };
            let spy = Spy::new(200, 50);
            let sp = spy.clone();
            crate::clock::enable();
            let r = catch_unwind(AssertUnwindSafe(move || {
                let pb = ProgressBar::with_draw_target(Some(u64::MAX), ProgressDrawTarget::term_like(Box::new(sp)));
                pb.set_style(style);
                crate::clock::advance(2_000_000_000);
                pb.inc(1);
                crate::clock::advance(5_000_000);
                pb.tick();
                let _ = (pb.eta(), pb.duration(), pb.per_sec(), pb.elapsed());
                crate::clock::advance(600_000_000_000);          // ten minutes without progress
                pb.tick();
                let _ = (pb.eta(), pb.duration(), pb.per_sec());
                pb.abandon();
                drop(pb);
            }));
            crate::clock::VIRTUAL.store(false, std::sync::atomic::Ordering::SeqCst);
            match r { Ok(()) => ("ok".into(), String::new()), Err(e) => ("panic".into(), panic_msg(e)) }
        }
        "force_draw" => onbar!(|pb: &ProgressBar, _: &Spy| pb.force_draw()),
        "ticks" => { let k = op["k"].as_u64().unwrap_or(1); onbar!(|pb: &ProgressBar, _: &Spy| for _ in 0..k { pb.tick(); }) }
        "set_position" => { let n = op["n"].as_u64().unwrap_or(0); onbar!(|pb: &ProgressBar, _: &Spy| pb.set_position(n)) }
        "finish" => onbar!(|pb: &ProgressBar, _: &Spy| pb.finish()),
        "later" => onbar!(|pb: &ProgressBar, _: &Spy| { pb.set_message("z"); let _ = pb.message(); pb.set_prefix("p"); let _ = pb.position(); let _ = pb.is_finished(); pb.inc(1); }),
        "steady" => onbar!(|pb: &ProgressBar, spy: &Spy| {
            // the ticker thread ticks (and draws) once immediately; a panic there poisons the bar state,
            // which the next call on this thread observes
            let before = spy.total_calls();
            pb.enable_steady_tick(Duration::from_secs(3600));
            let t0 = Instant::now();
            let mut poisoned = false;
            while t0.elapsed() < Duration::from_millis(300) {
                if catch_unwind(AssertUnwindSafe(|| { let _ = pb.message(); })).is_err() { poisoned = true; break; }
                if spy.total_calls() > before { break; }
                std::thread::sleep(Duration::from_micros(100));
            }
            pb.disable_steady_tick();       // stops and joins the ticker thread
            if poisoned { panic!("bar state poisoned by a panic on the steady-tick thread"); }
            let _ = pb.message();
        }),
        "tickstr" => {
            let s = match w.style.as_ref() { Some(s) => s, None => return ("skip".into(), String::new()) };
            let idx = u64_of(&op["idx"]);
            match catch_unwind(AssertUnwindSafe(|| { let _ = s.get_tick_str(idx).len(); })) { Ok(()) => ("ok".into(), String::new()), Err(e) => ("panic".into(), panic_msg(e)) }
        }
        "finalstr" => {
            let s = match w.style.as_ref() { Some(s) => s, None => return ("skip".into(), String::new()) };
            match catch_unwind(AssertUnwindSafe(|| { let _ = s.get_final_tick_str().len(); })) { Ok(()) => ("ok".into(), String::new()), Err(e) => ("panic".into(), panic_msg(e)) }
        }
        _ => ("skip".into(), String::new()),
    }
}

pub fn run_history(hist: &Value, out: &mut dyn Write) {
    let h = hist["h"].clone();
    writeln!(out, "{}", json!({"h": h, "i": 0, "op": "init", "res": "ok", "panic": ""})).unwrap();
    test_abort(&h);
    let mut w = World { style: None, bar: None };
    for (i, op) in hist["ops"].as_array().cloned().unwrap_or_default().iter().enumerate() {
        let (res, panic) = exec(&mut w, op);
        let mut rec = op.as_object().cloned().unwrap_or_default();
        rec.insert("h".into(), h.clone());
        rec.insert("i".into(), json!(i + 1));
        rec.insert("res".into(), json!(res));
        rec.insert("panic".into(), json!(panic));
        for (k, d) in [("arg", json!([])), ("args", json!([])), ("tpl", json!("")), ("k", json!(0)), ("n", json!(0)), ("w", json!(0)), ("len", json!(0)), ("idx", json!([0, 0, 0, 0, 0]))] {
            rec.entry(k.to_string()).or_insert(d);
        }
        writeln!(out, "{}", Value::Object(rec)).unwrap();
    }
    if let Some(b) = w.bar.take() { let _ = catch_unwind(AssertUnwindSafe(move || drop(b))); }
}

/// The histories run in a forked child (a panic while panicking aborts the process; that must be data,
/// not a tool failure). The child handles the remaining histories in sequence, writing one line per
/// record unbuffered and publishing the index of the history in progress in a shared page; when it dies
/// the parent appends an "abort" record for that history and forks a new child for the rest.
pub fn run_forked<R: BufRead>(input: R, out: &mut BufWriter<File>, run: fn(&Value, &mut dyn Write), abort_rec: fn(&Value, usize, String) -> Value) {
    let hists: Vec<Value> = input.lines().map(|l| l.unwrap()).filter(|l| !l.trim().is_empty())
        .map(|l| serde_json::from_str(&l).expect("bad history json")).collect();
    let page = unsafe { libc::mmap(std::ptr::null_mut(), 4096, libc::PROT_READ | libc::PROT_WRITE, libc::MAP_SHARED | libc::MAP_ANONYMOUS, -1, 0) } as *mut u64;
    assert!(page as isize != -1, "mmap failed");
    let mut start = 0usize;
    while start < hists.len() {
        out.flush().unwrap();
        unsafe { std::ptr::write_volatile(page, start as u64); }
        let pid = unsafe { libc::fork() };
        if pid == 0 {
            let mut lw = std::io::LineWriter::new(out.get_ref().try_clone().expect("dup output"));
            for (k, hist) in hists.iter().enumerate().skip(start) {
                unsafe { std::ptr::write_volatile(page, k as u64); }
                run(hist, &mut lw);
            }
            lw.flush().unwrap();
            unsafe { libc::_exit(0) };
        }
        let mut status: libc::c_int = 0;
        unsafe { libc::waitpid(pid, &mut status, 0); }
        if libc::WIFEXITED(status) && libc::WEXITSTATUS(status) == 0 { break; }
        let k = unsafe { std::ptr::read_volatile(page) } as usize;
        let hist = &hists[k.min(hists.len() - 1)];
        let _ = out.get_mut().seek(std::io::SeekFrom::End(0));
        let n = hist["ops"].as_array().map(|a| a.len()).unwrap_or(0);
        writeln!(out, "{}", abort_rec(hist, n + 1, format!("process aborted (status {status})"))).unwrap();
        out.flush().unwrap();
        start = k + 1;
    }
}

/// self-test hook: VERIF_TEST_ABORT=<h> kills the process while history h is in progress
pub fn test_abort(h: &Value) {
    if let Ok(v) = std::env::var("VERIF_TEST_ABORT") { if v.parse::<u64>().ok() == h.as_u64() { std::process::abort(); } }
}

pub fn run_all<R: BufRead>(input: R, out: &mut BufWriter<File>) {
    run_forked(input, out, run_history, |hist, i, msg| json!({"h": hist["h"], "i": i, "op": "abort", "res": "panic", "panic": msg}));
}
