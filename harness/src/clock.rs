//! Virtual monotonic clock by symbol interposition: the statically linked std calls
//! `clock_gettime`, which resolves to the definition below. While `VIRTUAL` is false the
//! real clock is used (raw syscall), so threaded drivers with real condvar time-outs are
//! not affected.
use std::sync::atomic::{AtomicBool, AtomicU64, Ordering};

pub static VIRTUAL: AtomicBool = AtomicBool::new(false);
/// Virtual time in ns. Starts far from 0 so `Instant::checked_sub` of large durations works.
pub const BASE_NS: u64 = 4_000_000_000_000_000;
pub static NOW_NS: AtomicU64 = AtomicU64::new(BASE_NS);

#[no_mangle]
pub unsafe extern "C" fn clock_gettime(clk: libc::clockid_t, ts: *mut libc::timespec) -> libc::c_int {
    if VIRTUAL.load(Ordering::SeqCst) && (clk == libc::CLOCK_MONOTONIC || clk == libc::CLOCK_BOOTTIME) {
        let n = NOW_NS.load(Ordering::SeqCst);
        (*ts).tv_sec = (n / 1_000_000_000) as libc::time_t;
        (*ts).tv_nsec = (n % 1_000_000_000) as libc::c_long;
        return 0;
    }
    libc::syscall(libc::SYS_clock_gettime, clk, ts) as libc::c_int
}

pub fn enable() {
    NOW_NS.store(BASE_NS, Ordering::SeqCst);
    VIRTUAL.store(true, Ordering::SeqCst);
}
pub fn reset() {
    NOW_NS.store(BASE_NS, Ordering::SeqCst);
}
pub fn advance(ns: u64) {
    NOW_NS.fetch_add(ns, Ordering::SeqCst);
}
pub fn now_rel() -> u64 {
    NOW_NS.load(Ordering::SeqCst) - BASE_NS
}

/// real monotonic time in ns (raw syscall: not affected by the virtual clock); for watchdogs
pub fn real_ns() -> u64 {
    let mut ts = libc::timespec { tv_sec: 0, tv_nsec: 0 };
    unsafe { libc::syscall(libc::SYS_clock_gettime, libc::CLOCK_MONOTONIC, &mut ts as *mut libc::timespec); }
    ts.tv_sec as u64 * 1_000_000_000 + ts.tv_nsec as u64
}
