//! Cells: how the specification sees characters. A cell is an integer g with
//!   g in 1..999      one column   (ASCII code, or a small table for non-ASCII)
//!   g in 1000..1999  two columns
//!   g in 2000..2999  zero columns (SGR sequence 2000, combining mark 2001, other CSI 2002)
//! 9 = TAB, 10 = LF, 13 = CR are control cells. 999 / 1999 / 2999 = "unknown" glyph of that width.
use serde_json::{json, Value};

const NARROW: &[(char, i64)] = &[
    ('\u{e9}', 233),  // e-acute (2 bytes)
    ('\u{2588}', 900), // full block
    ('\u{2591}', 901), // light shade
    ('\u{2593}', 902),
    ('\u{2592}', 903),
    ('\u{258f}', 904), ('\u{258e}', 905), ('\u{258d}', 906), ('\u{258c}', 907),
    ('\u{258b}', 908), ('\u{258a}', 909), ('\u{2589}', 910),
    ('\u{2801}', 920), ('\u{2809}', 921), ('\u{2819}', 922), ('\u{281a}', 923),
];
const WIDE: &[(char, i64)] = &[
    ('\u{4e16}', 1000), ('\u{754c}', 1001), ('\u{8a9e}', 1002), ('\u{6f22}', 1003), ('\u{5b57}', 1004),
    ('\u{1f600}', 1005),
    ('\u{4e00}', 1006), ('\u{4e8c}', 1007), ('\u{4e09}', 1008), ('\u{56db}', 1009), ('\u{4e94}', 1010), ('\u{516d}', 1011),
];
pub const SGR: &str = "\x1b[1m";

pub fn cell_to_string(g: i64) -> String {
    match g {
        9 => "\t".into(),
        10 => "\n".into(),
        13 => "\r".into(),
        2000 => SGR.into(),
        2001 => "\u{301}".into(),
        _ => {
            if let Some((c, _)) = NARROW.iter().find(|(_, k)| *k == g) { return c.to_string(); }
            if let Some((c, _)) = WIDE.iter().find(|(_, k)| *k == g) { return c.to_string(); }
            if (32..127).contains(&g) { return ((g as u8) as char).to_string(); }
            "?".into()
        }
    }
}

pub fn cells_to_string(v: &Value) -> String {
    let mut s = String::new();
    if let Some(a) = v.as_array() {
        for g in a { s.push_str(&cell_to_string(g.as_i64().unwrap_or(63))); }
    }
    s
}

pub fn string_to_cells(s: &str) -> Vec<i64> {
    let mut out = Vec::new();
    let cs: Vec<char> = s.chars().collect();
    let mut i = 0;
    while i < cs.len() {
        let c = cs[i];
        if c == '\x1b' {
            // CSI recogniser
            if i + 1 < cs.len() && cs[i + 1] == '[' {
                let mut j = i + 2;
                while j < cs.len() && !(('@'..='~').contains(&cs[j])) { j += 1; }
                if j < cs.len() {
                    out.push(if cs[j] == 'm' { 2000 } else { 2002 });
                    i = j + 1;
                    continue;
                }
            }
            out.push(2999);
            i += 1;
            continue;
        }
        let g = match c {
            '\t' => 9,
            '\n' => 10,
            '\r' => 13,
            '\u{301}' => 2001,
            c if (' '..='~').contains(&c) => c as i64,
            c => {
                if let Some((_, k)) = NARROW.iter().find(|(x, _)| *x == c) { *k }
                else if let Some((_, k)) = WIDE.iter().find(|(x, _)| *x == c) { *k }
                else {
                    match console::measure_text_width(&c.to_string()) { 0 => 2999, 2 => 1999, _ => 999 }
                }
            }
        };
        out.push(g);
        i += 1;
    }
    out
}

pub fn cells_json(s: &str) -> Value { json!(string_to_cells(s)) }
